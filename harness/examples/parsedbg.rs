// diagnostic: which header block of a parse_case seed does h2's codec reject, and does the bare decoder accept it whole?
use vh::wire::frame as wf;
fn main() {
    let seed: u64 = std::env::args().nth(1).unwrap().parse().unwrap();
    let bytes = vh::engine::codec::parse_case_bytes(seed);
    let mut raw = wf::RawParser::new(false);
    let mut raws = vec![];
    raw.feed(&bytes, &mut raws);
    let mut dec = h2::verif::Decoder::new(4096);
    let mut i = 0;
    while i < raws.len() {
        let r = &raws[i];
        if r.typ == wf::T_HEADERS || r.typ == wf::T_PUSH_PROMISE {
            let mut pieces: Vec<Vec<u8>> = vec![];
            let mut p = &r.payload[..];
            if r.flags & wf::F_PADDED != 0 { let pad = p[0] as usize; p = &p[1..p.len()-pad]; }
            if r.typ == wf::T_HEADERS && r.flags & wf::F_PRIORITY != 0 { p = &p[5..]; }
            if r.typ == wf::T_PUSH_PROMISE { p = &p[4..]; }
            pieces.push(p.to_vec());
            let mut j = i;
            let mut end = r.flags & wf::F_END_HEADERS != 0;
            while !end { j += 1; pieces.push(raws[j].payload.clone()); end = raws[j].flags & wf::F_END_HEADERS != 0; }
            let whole: Vec<u8> = pieces.concat();
            let refs: Vec<&[u8]> = vec![&whole];
            let res = vh::engine::codec::h2_decode_pub(&mut dec, &refs);
            println!("block at raw#{} type {} pieces {:?} total {} -> whole decode {:?} head {:02x?}", i, r.typ, pieces.iter().map(|p| p.len()).collect::<Vec<_>>().iter().take(6).collect::<Vec<_>>(), whole.len(), res.as_ref().map(|v| v.len()), &whole[..whole.len().min(12)]);
            if pieces.len() > 1 {
                let mut d2 = h2::verif::Decoder::new(4096);
                let prs: Vec<&[u8]> = pieces.iter().map(|p| &p[..]).collect();
                println!("   fresh decoder, pieces: {:?}", vh::engine::codec::h2_decode_pub(&mut d2, &prs).map(|v| v.len()));
                let mut d3 = h2::verif::Decoder::new(4096);
                println!("   fresh decoder, whole: {:?}", vh::engine::codec::h2_decode_pub(&mut d3, &[&whole]).map(|v| v.len()));
            }
            i = j + 1;
        } else { i += 1; }
    }
}
