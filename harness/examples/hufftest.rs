use vh::wire::hpack_ref::*;
use bytes::BytesMut;
fn main(){
    let s: Vec<u8> = vec![0xc0,0xca,0x2d,0x46,0x01,0x69,0xe9,0x16,0xfa,0x5c,0x03,0x64,0x9b,0xa4,0xc2,0xad,0xa5,0xb2,0x5a,0x96,0x6c,0xa6,0x17,0x87,0xa7,0xf5,0xdc,0x97,0xe5,0x48,0x88,0x0b,0xd9,0x6e,0xd2,0x11,0x55];
    let r = huff_decode(&s);
    let mut scratch = BytesMut::new();
    let h = h2::verif::huffman::decode(&s, &mut scratch).map(|b| b.to_vec());
    println!("ref {:?}", r.as_ref().map(|v| v.len()));
    println!("h2  {:?}", h.as_ref().map(|v| v.len()));
    println!("ref {:02x?}", r);
    println!("h2  {:02x?}", h);
    let mut blk = vec![0x00, 0x01, b'a'];
    encode_int(s.len() as u64, 7, 0x80, &mut blk);
    blk.extend_from_slice(&s);
    let mut inf = vh::nghttp2::Inflater::new();
    println!("ng  {:02x?}", inf.inflate(&blk).map(|f| f[0].1.clone()));
}
