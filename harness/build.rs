fn main() {
    // libnghttp2 has no dev symlink / headers on this image: link the runtime object directly.
    let lib = "/usr/lib/x86_64-linux-gnu/libnghttp2.so.14";
    if std::path::Path::new(lib).exists() && std::env::var("CARGO_CFG_MIRI").is_err() {
        println!("cargo:rustc-link-arg={}", lib);
    }
    println!("cargo:rerun-if-changed=build.rs");
}
