//! Small deterministic PRNG (splitmix64 seeding + xoshiro256**), no dependencies so
//! that replays are bit-exact on every toolchain (native, Miri, sanitizers).

#[derive(Clone, Debug)]
pub struct Rng {
    s: [u64; 4],
}

pub fn splitmix(seed: u64, index: u64) -> u64 {
    let mut z = seed
        .wrapping_add(index.wrapping_mul(0x9E37_79B9_7F4A_7C15))
        .wrapping_add(0x9E37_79B9_7F4A_7C15);
    z = (z ^ (z >> 30)).wrapping_mul(0xBF58_476D_1CE4_E5B9);
    z = (z ^ (z >> 27)).wrapping_mul(0x94D0_49BB_1331_11EB);
    z ^ (z >> 31)
}

impl Rng {
    pub fn new(seed: u64) -> Rng {
        let mut s = [0u64; 4];
        for (i, x) in s.iter_mut().enumerate() {
            *x = splitmix(seed, i as u64 + 1);
        }
        if s == [0; 4] {
            s[0] = 1;
        }
        Rng { s }
    }

    /// Derive an independent stream.
    pub fn fork(&mut self, salt: u64) -> Rng {
        let x = self.next_u64();
        Rng::new(splitmix(x, salt))
    }

    pub fn next_u64(&mut self) -> u64 {
        let result = self.s[1].wrapping_mul(5).rotate_left(7).wrapping_mul(9);
        let t = self.s[1] << 17;
        self.s[2] ^= self.s[0];
        self.s[3] ^= self.s[1];
        self.s[1] ^= self.s[2];
        self.s[0] ^= self.s[3];
        self.s[2] ^= t;
        self.s[3] = self.s[3].rotate_left(45);
        result
    }

    /// Uniform in [0, n). n == 0 yields 0.
    pub fn below(&mut self, n: u64) -> u64 {
        if n == 0 {
            return 0;
        }
        self.next_u64() % n
    }

    pub fn usize_below(&mut self, n: usize) -> usize {
        self.below(n as u64) as usize
    }

    /// Uniform in [lo, hi] inclusive.
    pub fn range(&mut self, lo: u64, hi: u64) -> u64 {
        if hi <= lo {
            return lo;
        }
        lo + self.below(hi - lo + 1)
    }

    /// True with probability num/den.
    pub fn chance(&mut self, num: u64, den: u64) -> bool {
        self.below(den) < num
    }

    pub fn pick<'a, T>(&mut self, xs: &'a [T]) -> &'a T {
        &xs[self.usize_below(xs.len())]
    }

    pub fn pick_copy<T: Copy>(&mut self, xs: &[T]) -> T {
        xs[self.usize_below(xs.len())]
    }

    pub fn byte(&mut self) -> u8 {
        self.next_u64() as u8
    }

    pub fn bytes(&mut self, n: usize) -> Vec<u8> {
        (0..n).map(|_| self.byte()).collect()
    }

    /// Random bytes, random length in [0, max).
    pub fn bytes_upto(&mut self, max: usize) -> Vec<u8> {
        let n = self.usize_below(max);
        self.bytes(n)
    }

    /// Weighted choice: returns the index.
    pub fn weighted(&mut self, w: &[u32]) -> usize {
        let total: u64 = w.iter().map(|x| *x as u64).sum();
        if total == 0 {
            return 0;
        }
        let mut r = self.below(total);
        for (i, x) in w.iter().enumerate() {
            if r < *x as u64 {
                return i;
            }
            r -= *x as u64;
        }
        w.len() - 1
    }
}

/// FNV-1a, used for behaviour fingerprints.
#[derive(Clone, Copy, Debug)]
pub struct Fnv(pub u64);

impl Default for Fnv {
    fn default() -> Self {
        Fnv(0xcbf29ce484222325)
    }
}

impl Fnv {
    pub fn add(&mut self, b: &[u8]) {
        for x in b {
            self.0 ^= *x as u64;
            self.0 = self.0.wrapping_mul(0x100000001b3);
        }
    }
    pub fn add_u64(&mut self, v: u64) {
        self.add(&v.to_le_bytes());
    }
}
