//! Hand-declared bindings to the system libnghttp2 (HPACK inflater/deflater only): a third,
//! fully independent voter for C10/C11 and the cross-check of the reference HPACK code.
//! Not available under Miri (no FFI) - callers are `#[cfg(not(miri))]`.
#![cfg(not(miri))]

use crate::mon::Violation;
use crate::wire::hpack_ref::Field;
use std::os::raw::{c_int, c_void};

#[repr(C)]
pub struct Nv {
    pub name: *mut u8,
    pub value: *mut u8,
    pub namelen: usize,
    pub valuelen: usize,
    pub flags: u8,
}

extern "C" {
    fn nghttp2_hd_inflate_new(inflater: *mut *mut c_void) -> c_int;
    fn nghttp2_hd_inflate_del(inflater: *mut c_void);
    fn nghttp2_hd_inflate_change_table_size(inflater: *mut c_void, size: usize) -> c_int;
    fn nghttp2_hd_inflate_hd2(inflater: *mut c_void, nv_out: *mut Nv, inflate_flags: *mut c_int, input: *const u8, inlen: usize, in_final: c_int) -> isize;
    fn nghttp2_hd_inflate_end_headers(inflater: *mut c_void) -> c_int;
    fn nghttp2_hd_deflate_new(deflater: *mut *mut c_void, max: usize) -> c_int;
    fn nghttp2_hd_deflate_del(deflater: *mut c_void);
    fn nghttp2_hd_deflate_hd(deflater: *mut c_void, buf: *mut u8, buflen: usize, nva: *const Nv, nvlen: usize) -> isize;
    fn nghttp2_hd_deflate_bound(deflater: *mut c_void, nva: *const Nv, nvlen: usize) -> usize;
}

pub struct Inflater(*mut c_void);

impl Inflater {
    pub fn new() -> Inflater {
        let mut p: *mut c_void = std::ptr::null_mut();
        let rc = unsafe { nghttp2_hd_inflate_new(&mut p) };
        assert_eq!(rc, 0);
        Inflater(p)
    }
    pub fn change_table_size(&mut self, n: usize) -> bool {
        unsafe { nghttp2_hd_inflate_change_table_size(self.0, n) == 0 }
    }
    pub fn inflate(&mut self, block: &[u8]) -> Result<Vec<Field>, isize> {
        let mut out = Vec::new();
        let mut off = 0usize;
        loop {
            let mut nv = Nv { name: std::ptr::null_mut(), value: std::ptr::null_mut(), namelen: 0, valuelen: 0, flags: 0 };
            let mut flags: c_int = 0;
            let rv = unsafe { nghttp2_hd_inflate_hd2(self.0, &mut nv, &mut flags, block[off..].as_ptr(), block.len() - off, 1) };
            if rv < 0 {
                return Err(rv);
            }
            off += rv as usize;
            if flags & 0x02 != 0 {
                let n = unsafe { std::slice::from_raw_parts(nv.name, nv.namelen) }.to_vec();
                let v = unsafe { std::slice::from_raw_parts(nv.value, nv.valuelen) }.to_vec();
                out.push((n, v));
            }
            if flags & 0x01 != 0 {
                unsafe { nghttp2_hd_inflate_end_headers(self.0) };
                break;
            }
            if rv == 0 && off >= block.len() && flags & 0x02 == 0 {
                unsafe { nghttp2_hd_inflate_end_headers(self.0) };
                break;
            }
        }
        Ok(out)
    }
}

impl Drop for Inflater {
    fn drop(&mut self) {
        unsafe { nghttp2_hd_inflate_del(self.0) }
    }
}

pub struct Deflater(*mut c_void);

impl Deflater {
    pub fn new(max: usize) -> Deflater {
        let mut p: *mut c_void = std::ptr::null_mut();
        let rc = unsafe { nghttp2_hd_deflate_new(&mut p, max) };
        assert_eq!(rc, 0);
        Deflater(p)
    }
    pub fn deflate(&mut self, fields: &[Field]) -> Vec<u8> {
        let nva: Vec<Nv> = fields.iter().map(|(n, v)| Nv { name: n.as_ptr() as *mut u8, value: v.as_ptr() as *mut u8, namelen: n.len(), valuelen: v.len(), flags: 0 }).collect();
        let bound = unsafe { nghttp2_hd_deflate_bound(self.0, nva.as_ptr(), nva.len()) };
        let mut buf = vec![0u8; bound];
        let rv = unsafe { nghttp2_hd_deflate_hd(self.0, buf.as_mut_ptr(), buf.len(), nva.as_ptr(), nva.len()) };
        assert!(rv >= 0);
        buf.truncate(rv as usize);
        buf
    }
}

impl Drop for Deflater {
    fn drop(&mut self) {
        unsafe { nghttp2_hd_deflate_del(self.0) }
    }
}

fn multiset(v: &[Field]) -> std::collections::BTreeMap<Vec<u8>, Vec<Vec<u8>>> {
    let mut m: std::collections::BTreeMap<Vec<u8>, Vec<Vec<u8>>> = Default::default();
    for (n, val) in v {
        m.entry(n.clone()).or_default().push(val.clone());
    }
    m
}

/// Inflate a whole connection history of h2-encoded blocks with nghttp2.
/// `table_events`: (block index before which the decoder-side SETTINGS_HEADER_TABLE_SIZE became `n`).
pub fn check_history(table_events: &[(usize, usize)], blocks: &[Vec<u8>], expected: &[Vec<Field>]) -> Option<Violation> {
    let mut inf = Inflater::new();
    for (i, b) in blocks.iter().enumerate() {
        for (at, n) in table_events {
            if *at == i {
                inf.change_table_size(*n);
            }
        }
        match inf.inflate(b) {
            Ok(f) => {
                if multiset(&f) != multiset(&expected[i]) {
                    return Some(Violation::new("C10", "nghttp2-decodes-different-fields", format!("block #{}: nghttp2 got {} fields, submitted {}", i, f.len(), expected[i].len())));
                }
            }
            Err(rc) => return Some(Violation::new("C10", "nghttp2-rejects-emitted-block", format!("block #{} ({} bytes): nghttp2_hd_inflate_hd2 = {}", i, b.len(), rc))),
        }
    }
    None
}
