//! Engine `raw`: one h2 endpoint E (either role, with generated application
//! programs) against the scripted raw peer.

use super::rawpeer::{RawPeer, Shadow};
use super::sim::{fmt_ev, panic_rule, Outcome};
use crate::apps::actors::*;
use crate::apps::spec::*;
use crate::mon::snap::SnapHook;
use crate::mon::{self, Stats, View, Violation};
use crate::rng::Rng;
use crate::sim::{self, PipeEnd, PipeState, RunEnd, TaskKind};
use crate::trace::{EvK, Op, Phase, Res, Side};
use crate::wire::frame::*;
use crate::wire::hpack_ref::Field;
use bytes::Bytes;
use std::cell::RefCell;
use std::collections::BTreeMap;
use std::panic::{catch_unwind, AssertUnwindSafe};
use std::rc::Rc;

pub fn f(n: &str, v: &str) -> Field {
    (n.as_bytes().to_vec(), v.as_bytes().to_vec())
}

/// What the reference reaction table allows E to do.
#[derive(Debug, Clone, PartialEq, Eq)]
pub enum Expect {
    /// connection error: GOAWAY with a non-zero code (RFC-named code given for the evidence note)
    Conn(u32),
    /// at least a stream error on the target (RST_STREAM there, or a connection error)
    Stream(u32),
    /// legal traffic: no error GOAWAY, no RST on streams the item did not itself end
    Tolerate,
    /// either reaction is RFC-conformant (MAY / implementation choice)
    Any,
}

#[derive(Debug, Clone)]
pub struct Item {
    pub name: &'static str,
    pub expect: Expect,
    /// the item itself legitimately terminates the target stream (so RST on it is fine)
    pub ends_target: bool,
}

#[derive(Debug, Clone, Copy, PartialEq, Eq)]
pub enum TargetState {
    Idle,
    Open,
    HalfClosedRemote,
    ClosedClean,
    ResetByE,
    ResetByPeer,
    /// opened beyond E's concurrency limit and refused by E (RST_STREAM(REFUSED_STREAM)): frames the peer
    /// had in flight for it are a legal race
    RefusedByE,
}

pub const ALL_STATES: [TargetState; 7] = [TargetState::Idle, TargetState::Open, TargetState::HalfClosedRemote, TargetState::ClosedClean, TargetState::ResetByE, TargetState::ResetByPeer, TargetState::RefusedByE];

/// Build the bytes of a catalogue item aimed at stream `t` (E = server, peer = client).
/// Returns None when the item does not apply to the state.
pub fn item_bytes(peer: &mut RawPeer, name: &str, t: u32, state: TargetState, rng: &mut Rng, remembers_resets: bool) -> Option<(Vec<u8>, Expect, bool)> {
    use Expect::*;
    use TargetState::*;
    let mut b = Vec::new();
    let open_like = matches!(state, Open | HalfClosedRemote);
    let r = match name {
        // ---- frame size errors
        "ping-len-7" => {
            raw_frame(T_PING, 0, 0, &[0; 7], &mut b);
            (Conn(6), false)
        }
        "ping-len-9" => {
            raw_frame(T_PING, 0, 0, &[0; 9], &mut b);
            (Conn(6), false)
        }
        "rst-len-5" => {
            raw_frame(T_RST, 0, t, &[0, 0, 0, 8, 0], &mut b);
            (Conn(6), false)
        }
        "window-update-len-3" => {
            raw_frame(T_WINDOW_UPDATE, 0, 0, &[0, 0, 1], &mut b);
            (Conn(6), false)
        }
        "priority-len-4" => {
            raw_frame(T_PRIORITY, 0, t, &[0, 0, 0, 0], &mut b);
            // RFC 9113 6.3: stream error FRAME_SIZE_ERROR; on an idle or closed stream nothing can be reset
            (if open_like { Stream(6) } else { Any }, false)
        }
        "settings-len-5" => {
            raw_frame(T_SETTINGS, 0, 0, &[0, 4, 0, 0, 1], &mut b);
            (Conn(6), false)
        }
        "settings-ack-with-payload" => {
            raw_frame(T_SETTINGS, F_ACK, 0, &[0, 4, 0, 0, 1, 0], &mut b);
            (Conn(6), false)
        }
        "frame-over-max-size" => {
            let n = peer.sh.e_mfs as usize + 1;
            frame_header(n, T_DATA, 0, if open_like { t } else { 0 }, &mut b);
            b.extend(std::iter::repeat(0).take(n.min(70_000)));
            if n > 70_000 {
                return None;
            }
            (Conn(6), false)
        }
        // ---- stream 0 misuse / wrong stream kind
        "data-on-stream-0" => {
            data(0, b"xx", false, None, &mut b);
            (Conn(1), false)
        }
        "headers-on-stream-0" => {
            let blk = peer.encode_block(&[f(":method", "GET"), f(":scheme", "https"), f(":path", "/")]);
            headers(0, &blk, true, None, None, 0, 0, &mut b);
            (Conn(1), false)
        }
        "rst-on-stream-0" => {
            rst(0, 8, &mut b);
            (Conn(1), false)
        }
        "push-promise-on-stream-0" => {
            let blk = peer.encode_block(&[f(":method", "GET"), f(":scheme", "https"), f(":path", "/")]);
            push_promise(0, 2, &blk, None, 0, 0, &mut b);
            (Conn(1), false)
        }
        "continuation-on-stream-0" => {
            raw_frame(T_CONTINUATION, F_END_HEADERS, 0, &[], &mut b);
            (Conn(1), false)
        }
        "settings-on-stream" => {
            raw_frame(T_SETTINGS, 0, t, &[], &mut b);
            (Conn(1), false)
        }
        "ping-on-stream" => {
            raw_frame(T_PING, 0, t, &[0; 8], &mut b);
            (Conn(1), false)
        }
        "goaway-on-stream" => {
            raw_frame(T_GOAWAY, 0, t, &[0, 0, 0, 0, 0, 0, 0, 0], &mut b);
            (Conn(1), false)
        }
        // ---- padding / dependency
        "data-padding-exceeds-length" => {
            if !open_like {
                return None;
            }
            raw_frame(T_DATA, F_PADDED, t, &[10, 1, 2, 3], &mut b);
            (Conn(1), false)
        }
        "headers-padding-exceeds-length" => {
            if state != Idle {
                return None;
            }
            // pad length larger than what follows the pad-length octet
            let blk = peer.encode_block(&[f(":method", "GET"), f(":scheme", "https"), f(":path", "/"), f(":authority", "vp.test")]);
            let mut pl = vec![(blk.len() + 1 + rng.usize_below(20)).min(255) as u8];
            pl.extend_from_slice(&blk);
            raw_frame(T_HEADERS, F_PADDED | F_END_HEADERS | F_END_STREAM, t, &pl, &mut b);
            (Conn(1), false)
        }
        "headers-padding-exceeds-length-after-priority" => {
            if state != Idle {
                return None;
            }
            // PADDED + PRIORITY: the pad length fits behind the pad-length octet but not behind the five
            // priority octets that follow it (RFC 9113 6.2: padding >= remaining payload is PROTOCOL_ERROR)
            let rest = rng.usize_below(4);
            let pad = rest + 1 + rng.usize_below(5 - 0);
            let mut pl = vec![pad as u8, 0, 0, 0, 0, 16];
            pl.extend(std::iter::repeat(0x82).take(rest));
            raw_frame(T_HEADERS, F_PADDED | F_PRIORITY | F_END_HEADERS | F_END_STREAM, t, &pl, &mut b);
            (Conn(1), false)
        }
        "headers-self-dependency" => {
            if state != Idle {
                return None;
            }
            let blk = peer.encode_block(&[f(":method", "GET"), f(":scheme", "https"), f(":path", "/"), f(":authority", "vp.test")]);
            headers(t, &blk, true, None, Some((false, t, 10)), 0, 0, &mut b);
            (Stream(1), true)
        }
        "priority-self-dependency" => {
            priority(t, false, t, 10, &mut b);
            // nothing is left to reset on an idle or already closed stream
            (if open_like { Stream(1) } else { Any }, false)
        }
        // ---- header block contiguity
        "continuation-without-headers" => {
            raw_frame(T_CONTINUATION, F_END_HEADERS, if state == Idle { 1 } else { t }, &[0x82], &mut b);
            (Conn(1), false)
        }
        "frame-inside-header-block" => {
            if state != Idle {
                return None;
            }
            let blk = peer.encode_block(&[f(":method", "GET"), f(":scheme", "https"), f(":path", "/"), f(":authority", "vp.test")]);
            raw_frame(T_HEADERS, F_END_STREAM, t, &blk[..2], &mut b);
            // RFC 9113 4.3 / 6.10: *any* other frame, of any type (also an unknown one) and on any stream
            match rng.below(6) {
                0 => ping(false, [7; 8], &mut b),
                1 => window_update(0, 10, &mut b),
                2 => settings(&[], &mut b),
                3 => raw_frame(0xee, 0, 0, &[1, 2, 3], &mut b),
                4 => raw_frame(0x0b + rng.below(0xf0) as u8, rng.byte(), t, &rng.bytes_upto(20), &mut b),
                _ => priority(t + 2, false, 0, 5, &mut b),
            }
            raw_frame(T_CONTINUATION, F_END_HEADERS, t, &blk[2..], &mut b);
            (Conn(1), false)
        }
        "continuation-on-other-stream" => {
            if state != Idle {
                return None;
            }
            let blk = peer.encode_block(&[f(":method", "GET"), f(":scheme", "https"), f(":path", "/"), f(":authority", "vp.test")]);
            raw_frame(T_HEADERS, F_END_STREAM, t, &blk[..2], &mut b);
            raw_frame(T_CONTINUATION, F_END_HEADERS, t + 2, &blk[2..], &mut b);
            (Conn(1), false)
        }
        // ---- HPACK
        "hpack-bad-index" => {
            if state != Idle {
                return None;
            }
            raw_frame(T_HEADERS, F_END_STREAM | F_END_HEADERS, t, &[0xff, 0xff, 0x03], &mut b);
            (Conn(9), false)
        }
        "hpack-bad-huffman" => {
            if state != Idle {
                return None;
            }
            // literal w/o indexing, new name (huffman flagged, EOS inside)
            raw_frame(T_HEADERS, F_END_STREAM | F_END_HEADERS, t, &[0x00, 0x84, 0xff, 0xff, 0xff, 0xff, 0x01, b'v'], &mut b);
            (Conn(9), false)
        }
        "hpack-truncated-block" => {
            if state != Idle {
                return None;
            }
            // a complete request followed by the beginning of one more field representation, in one frame
            // or cut anywhere into HEADERS + CONTINUATION(s) (also with an empty last CONTINUATION): the
            // block ends inside a representation whichever frame carries its end (RFC 7541 sections 3.2, 5)
            let mut blk = peer.encode_block(&[f(":method", "GET"), f(":scheme", "https"), f(":path", "/"), f(":authority", "vp.test")]);
            let tail: &[u8] = match rng.below(5) {
                0 => &[0x40, 0x03, b'a', b'b'],
                1 => &[0x40, 0x01, b'a'],
                2 => &[0x00, 0x01, b'a', 0x05, b'v'],
                3 => &[0x7f],
                _ => &[0xff, 0x80],
            };
            blk.extend_from_slice(tail);
            match rng.below(4) {
                0 => raw_frame(T_HEADERS, F_END_STREAM | F_END_HEADERS, t, &blk, &mut b),
                1 => {
                    let c = rng.usize_below(blk.len() + 1);
                    raw_frame(T_HEADERS, F_END_STREAM, t, &blk[..c], &mut b);
                    raw_frame(T_CONTINUATION, F_END_HEADERS, t, &blk[c..], &mut b);
                }
                2 => {
                    raw_frame(T_HEADERS, F_END_STREAM, t, &blk, &mut b);
                    raw_frame(T_CONTINUATION, F_END_HEADERS, t, &[], &mut b);
                }
                _ => {
                    let c1 = rng.usize_below(blk.len() + 1);
                    let c2 = c1 + rng.usize_below(blk.len() - c1 + 1);
                    raw_frame(T_HEADERS, F_END_STREAM, t, &blk[..c1], &mut b);
                    raw_frame(T_CONTINUATION, 0, t, &blk[c1..c2], &mut b);
                    raw_frame(T_CONTINUATION, F_END_HEADERS, t, &blk[c2..], &mut b);
                }
            }
            (Conn(9), false)
        }
        "hpack-oversize-table-update" => {
            if state != Idle {
                return None;
            }
            raw_frame(T_HEADERS, F_END_STREAM | F_END_HEADERS, t, &[0x3f, 0xe1, 0xff, 0x03, 0x82], &mut b);
            (Conn(9), false)
        }
        // ---- identifiers
        "even-stream-id-from-client" => {
            if state != Idle {
                return None;
            }
            let blk = peer.encode_block(&[f(":method", "GET"), f(":scheme", "https"), f(":path", "/"), f(":authority", "vp.test")]);
            headers(t + 1, &blk, true, None, None, 0, 0, &mut b);
            (Conn(1), false)
        }
        "headers-on-closed-lower-id" => {
            // reuse of an id below the highest opened one that was never used: implicitly closed
            if state == Idle {
                return None;
            }
            let unused = t.checked_sub(2)?;
            if unused == 0 || peer.sh_used(unused) {
                return None;
            }
            let blk = peer.encode_block(&[f(":method", "GET"), f(":scheme", "https"), f(":path", "/"), f(":authority", "vp.test")]);
            headers(unused, &blk, true, None, None, 0, 0, &mut b);
            (Conn(1), false)
        }
        "data-on-idle" => {
            if state != Idle {
                return None;
            }
            data(t, b"abc", false, None, &mut b);
            (Conn(1), false)
        }
        "rst-on-idle" => {
            if state != Idle {
                return None;
            }
            rst(t, 8, &mut b);
            (Conn(1), false)
        }
        "window-update-on-idle" => {
            if state != Idle {
                return None;
            }
            window_update(t, 10, &mut b);
            (Conn(1), false)
        }
        // ---- stream states
        "data-after-end-stream" => {
            if state != HalfClosedRemote {
                return None;
            }
            data(t, b"late", false, None, &mut b);
            (Stream(5), false)
        }
        "headers-after-end-stream" => {
            if state != HalfClosedRemote {
                return None;
            }
            let blk = peer.encode_block(&[f("x-late", "1")]);
            headers(t, &blk, true, None, None, 0, 0, &mut b);
            (Stream(5), false)
        }
        "second-headers-without-end-stream" => {
            if state != Open {
                return None;
            }
            let blk = peer.encode_block(&[f("x-second", "1")]);
            headers(t, &blk, false, None, None, 0, 0, &mut b);
            (Stream(1), false)
        }
        "data-on-closed-clean" => {
            if state != ClosedClean {
                return None;
            }
            data(t, b"zombie", false, None, &mut b);
            // RFC 9113 5.1 closed: stream error STREAM_CLOSED, MAY be treated as a connection error
            (Stream(5), false)
        }
        // ---- flow control
        "window-update-zero-stream" => {
            if !open_like {
                return None;
            }
            window_update(t, 0, &mut b);
            (Stream(1), false)
        }
        "window-update-zero-connection" => {
            window_update(0, 0, &mut b);
            (Conn(1), false)
        }
        "window-update-overflow-stream" => {
            if !open_like {
                return None;
            }
            window_update(t, 0x7fff_ffff, &mut b);
            (Stream(3), false)
        }
        "window-update-overflow-connection" => {
            window_update(0, 0x7fff_ffff, &mut b);
            (Conn(3), false)
        }
        "stream-window-overrun" => {
            if state != Open {
                return None;
            }
            let iws = peer.sh.e_iws;
            let w = *peer.sh.stream_window.get(&t).unwrap_or(&iws);
            if w < 0 || w as usize + 1 > peer.sh.e_mfs as usize || (w + 1) > peer.sh.conn_window {
                return None;
            }
            let payload = vec![0x55u8; w as usize + 1];
            data(t, &payload, false, None, &mut b);
            (Stream(3), false)
        }
        "connection-window-overrun" => {
            if state != Open {
                return None;
            }
            // only expressible when the connection window is the smaller one
            let iws = peer.sh.e_iws;
            let sw = *peer.sh.stream_window.get(&t).unwrap_or(&iws);
            let cw = peer.sh.conn_window;
            if cw < 0 || cw + 1 > sw || cw as usize + 1 > peer.sh.e_mfs as usize {
                return None;
            }
            let payload = vec![0x55u8; cw as usize + 1];
            data(t, &payload, false, None, &mut b);
            (Conn(3), false)
        }
        // ---- settings values
        "settings-enable-push-2" => {
            settings(&[(S_ENABLE_PUSH, 2)], &mut b);
            (Conn(1), false)
        }
        "settings-initial-window-too-big" => {
            settings(&[(S_INITIAL_WINDOW_SIZE, 0x8000_0000)], &mut b);
            (Conn(3), false)
        }
        "settings-max-frame-size-too-small" => {
            settings(&[(S_MAX_FRAME_SIZE, 16_383)], &mut b);
            (Conn(1), false)
        }
        "settings-max-frame-size-too-big" => {
            settings(&[(S_MAX_FRAME_SIZE, 1 << 24)], &mut b);
            (Conn(1), false)
        }
        "stray-settings-ack" => {
            settings_ack(&mut b);
            (Conn(1), false)
        }
        "push-promise-to-server" => {
            if !open_like {
                return None;
            }
            let blk = peer.encode_block(&[f(":method", "GET"), f(":scheme", "https"), f(":path", "/"), f(":authority", "vp.test")]);
            push_promise(t, 2, &blk, None, 0, 0, &mut b);
            (Conn(1), false)
        }
        // ==== legal items
        "legal-priority" => {
            priority(t, rng.chance(1, 2), 0, rng.byte(), &mut b);
            (Tolerate, false)
        }
        "legal-priority-on-other-idle" => {
            priority(t + 200, false, 0, 1, &mut b);
            (Tolerate, false)
        }
        "legal-unknown-frame-type-conn" => {
            let n = rng.usize_below(30);
            let fl = rng.byte();
            raw_frame(0xfa, fl, 0, &rng.bytes(n), &mut b);
            (Tolerate, false)
        }
        "legal-unknown-frame-type-stream" => {
            let n = rng.usize_below(30);
            let fl = rng.byte();
            raw_frame(0xbb, fl, t, &rng.bytes(n), &mut b);
            (Tolerate, false)
        }
        "legal-unknown-setting" => {
            settings(&[(0x99, 12345), (0xff, 0)], &mut b);
            peer.sent_settings += 1;
            (Tolerate, false)
        }
        "legal-repeated-settings" => {
            settings(&[(S_MAX_CONCURRENT_STREAMS, 100)], &mut b);
            settings(&[(S_MAX_CONCURRENT_STREAMS, 100)], &mut b);
            peer.sent_settings += 2;
            (Tolerate, false)
        }
        "legal-padded-data" => {
            if state != Open {
                return None;
            }
            data(t, b"", false, Some(20), &mut b);
            *peer.sh.stream_window.entry(t).or_insert(0) -= 21;
            peer.sh.conn_window -= 21;
            (Tolerate, false)
        }
        "legal-empty-data" => {
            if state != Open {
                return None;
            }
            data(t, b"", false, None, &mut b);
            (Tolerate, false)
        }
        "legal-ping-ack-with-unknown-flags" => {
            // an acknowledgement is an acknowledgement whatever undefined flag bits accompany it (RFC 9113 4.1:
            // undefined flags are ignored); it answers nothing of ours, h2 tolerates unsolicited acknowledgements,
            // and it must certainly not be acknowledged in turn
            raw_frame(T_PING, F_ACK | (rng.byte() & 0xfe), 0, &rng.bytes(8), &mut b);
            (Tolerate, false)
        }
        "legal-unknown-flags-on-ping" => {
            raw_frame(T_PING, 0xfe & !F_ACK, 0, &[9; 8], &mut b);
            (Tolerate, false)
        }
        "legal-window-update-on-closed" => {
            if !matches!(state, ClosedClean | ResetByE | ResetByPeer | RefusedByE) {
                return None;
            }
            window_update(t, 100, &mut b);
            (Tolerate, false)
        }
        "legal-rst-on-closed" => {
            if !matches!(state, ClosedClean | ResetByE | ResetByPeer | RefusedByE) {
                return None;
            }
            rst(t, 8, &mut b);
            (Tolerate, true)
        }
        "legal-data-in-flight-after-e-reset" => {
            if !matches!(state, ResetByE | RefusedByE) {
                return None;
            }
            data(t, b"in-flight", false, None, &mut b);
            peer.sh.conn_window -= 9;
            (Tolerate, true)
        }
        "legal-trailers-in-flight-after-e-reset" => {
            if !matches!(state, ResetByE | RefusedByE) {
                return None;
            }
            let blk = peer.encode_block(&[f("x-trailer", "1")]);
            headers(t, &blk, true, None, None, 0, 0, &mut b);
            // a server configured to forget reset streams at once cannot tell late trailers from a
            // new stream with a stale id: tolerance is only owed within the configured reset memory
            // (refused streams are never entered into that memory: RFC 9113 5.1 lets an endpoint limit the
            // period over which it ignores frames, h2's period for refused streams is zero)
            (if remembers_resets && state == ResetByE { Tolerate } else { Any }, true)
        }
        "legal-window-update-after-e-reset" => {
            if !matches!(state, ResetByE | RefusedByE) {
                return None;
            }
            window_update(t, 1000, &mut b);
            (Tolerate, true)
        }
        "legal-zero-length-continuations" => {
            if state != Idle {
                return None;
            }
            let blk = peer.encode_block(&[f(":method", "GET"), f(":scheme", "https"), f(":path", "/"), f(":authority", "vp.test")]);
            raw_frame(T_HEADERS, F_END_STREAM, t, &blk, &mut b);
            raw_frame(T_CONTINUATION, 0, t, &[], &mut b);
            raw_frame(T_CONTINUATION, 0, t, &[], &mut b);
            raw_frame(T_CONTINUATION, F_END_HEADERS, t, &[], &mut b);
            (Tolerate, false)
        }
        "legal-headers-with-priority-and-padding" => {
            if state != Idle {
                return None;
            }
            let blk = peer.encode_block(&[f(":method", "GET"), f(":scheme", "https"), f(":path", "/"), f(":authority", "vp.test")]);
            headers(t, &blk, true, Some(7), Some((true, 0, 200)), 0, 0, &mut b);
            (Tolerate, false)
        }
        "legal-ping" => {
            ping(false, [3; 8], &mut b);
            (Tolerate, false)
        }
        _ => return None,
    };
    Some((b, r.0, r.1))
}

pub const ITEMS: &[&str] = &[
    "ping-len-7",
    "ping-len-9",
    "rst-len-5",
    "window-update-len-3",
    "priority-len-4",
    "settings-len-5",
    "settings-ack-with-payload",
    "frame-over-max-size",
    "data-on-stream-0",
    "headers-on-stream-0",
    "rst-on-stream-0",
    "push-promise-on-stream-0",
    "continuation-on-stream-0",
    "settings-on-stream",
    "ping-on-stream",
    "goaway-on-stream",
    "data-padding-exceeds-length",
    "headers-padding-exceeds-length",
    "headers-padding-exceeds-length-after-priority",
    "headers-self-dependency",
    "priority-self-dependency",
    "continuation-without-headers",
    "frame-inside-header-block",
    "continuation-on-other-stream",
    "hpack-bad-index",
    "hpack-bad-huffman",
    "hpack-truncated-block",
    "hpack-oversize-table-update",
    "even-stream-id-from-client",
    "headers-on-closed-lower-id",
    "data-on-idle",
    "rst-on-idle",
    "window-update-on-idle",
    "data-after-end-stream",
    "headers-after-end-stream",
    "second-headers-without-end-stream",
    "data-on-closed-clean",
    "window-update-zero-stream",
    "window-update-zero-connection",
    "window-update-overflow-stream",
    "window-update-overflow-connection",
    "stream-window-overrun",
    "connection-window-overrun",
    "settings-enable-push-2",
    "settings-initial-window-too-big",
    "settings-max-frame-size-too-small",
    "settings-max-frame-size-too-big",
    "stray-settings-ack",
    "push-promise-to-server",
    "legal-priority",
    "legal-priority-on-other-idle",
    "legal-unknown-frame-type-conn",
    "legal-unknown-frame-type-stream",
    "legal-unknown-setting",
    "legal-repeated-settings",
    "legal-padded-data",
    "legal-empty-data",
    "legal-unknown-flags-on-ping",
    "legal-ping-ack-with-unknown-flags",
    "legal-window-update-on-closed",
    "legal-rst-on-closed",
    "legal-data-in-flight-after-e-reset",
    "legal-trailers-in-flight-after-e-reset",
    "legal-window-update-after-e-reset",
    "legal-zero-length-continuations",
    "legal-headers-with-priority-and-padding",
    "legal-ping",
];

impl RawPeer {
    pub fn sh_used(&self, sid: u32) -> bool {
        self.used_ids.contains(&sid)
    }
}

#[derive(Debug, Clone)]
pub struct CatalogueScenario {
    pub seed: u64,
    pub item: String,
    pub state: TargetState,
    pub server_cfg: EpCfg,
    pub prof: [sim::DirProfile; 2],
    pub sched: sim::Sched,
    pub witness_body: usize,
}

pub fn gen_catalogue(seed: u64) -> CatalogueScenario {
    gen_catalogue_kinds(seed, &[])
}

/// `only`: item name prefixes to restrict the catalogue to (empty = all items)
pub fn gen_catalogue_kinds(seed: u64, only: &[String]) -> CatalogueScenario {
    let mut rng = Rng::new(seed ^ 0xca7a_1090);
    let (item, state) = if only.is_empty() {
        (rng.pick(ITEMS).to_string(), *rng.pick(&ALL_STATES))
    } else {
        let pool: Vec<&&str> = ITEMS.iter().filter(|i| only.iter().any(|p| i.starts_with(p.as_str()))).collect();
        assert!(!pool.is_empty(), "no catalogue item matches --kinds");
        let item = rng.pick(&pool).to_string();
        // header compression items open a new stream: they only apply to an idle target
        let state = if item.starts_with("hpack-") { TargetState::Idle } else { *rng.pick(&ALL_STATES) };
        (item, state)
    };
    let mut cfg = EpCfg::default();
    cfg.data_frame_budget = Some(1 << 40);
    cfg.initial_window_size = *rng.pick(&[None, None, Some(1000u32), Some(20_000), Some(65_535), Some(200_000)]);
    cfg.max_frame_size = *rng.pick(&[None, None, Some(16_384u32), Some(20_000), Some(60_000)]);
    cfg.reset_stream_duration_s = *rng.pick(&[None, Some(0), Some(3600)]);
    cfg.max_concurrent_reset_streams = *rng.pick(&[None, None, Some(0usize), Some(1)]);
    if state == TargetState::RefusedByE {
        // the witness and one filler occupy both slots
        cfg.max_concurrent_streams = Some(2);
    }
    CatalogueScenario {
        seed,
        item,
        state,
        server_cfg: cfg,
        prof: [gen_profile(&mut rng), gen_profile(&mut rng)],
        sched: gen_sched(&mut rng),
        witness_body: *rng.pick(&[0usize, 1, 500, 5000, 40_000]),
    }
}

#[derive(Default, Debug, Clone)]
pub struct CatReport {
    pub applied: bool,
    pub inj_t: u64,
    pub target: u32,
    pub witness: u32,
    pub probe: u32,
    pub expect: Option<Expect>,
    pub ends_target: bool,
    pub state_reached: bool,
}

/// E = h2 server; the peer is a raw client.
async fn catalogue_peer(mut p: RawPeer, sc: CatalogueScenario, rep: Rc<RefCell<CatReport>>) {
    let mut rng = Rng::new(sc.seed ^ 0x9e37);
    if !p.handshake(&[(S_INITIAL_WINDOW_SIZE, 1 << 20)]).await {
        return;
    }
    // witness stream: a request with a body, answered with a body (spec 1)
    let w = p.alloc_sid();
    p.open_request(w, "POST", "/witness", &[f("x-vp-id", "1")], false).await;
    p.send_data_legal(w, 2, 0, sc.witness_body / 2, false).await;
    // target stream into its state class (spec idx 2 = plain; 3 = reset by E)
    if sc.state == TargetState::RefusedByE {
        // a complete request whose handler answers only when the gate opens keeps the second slot busy
        let filler = p.alloc_sid();
        p.open_request(filler, "GET", "/filler", &[f("x-vp-id", "4")], true).await;
        p.settle_world(100_000).await;
    }
    let t = match sc.state {
        TargetState::Idle => p.peek_sid(),
        _ => p.alloc_sid(),
    };
    let mut reached = true;
    match sc.state {
        TargetState::Idle => {}
        TargetState::Open => {
            // E accepts, reads, and answers only once the request has ended (which the peer delays)
            p.open_request(t, "POST", "/target", &[f("x-vp-id", "4")], false).await;
            p.send_data_legal(t, 8, 0, 10, false).await;
            p.open_target = Some(t);
            p.settle_world(100_000).await;
        }
        TargetState::HalfClosedRemote => {
            p.open_request(t, "POST", "/target", &[f("x-vp-id", "4")], false).await;
            p.send_data_legal(t, 8, 0, 10, true).await;
            // E answers only after the item (spec 4 responds late): wait until the request was accepted
            p.settle_world(100_000).await;
        }
        TargetState::ClosedClean => {
            p.open_request(t, "GET", "/target", &[f("x-vp-id", "2")], true).await;
            reached = p.until(|s| s.streams.get(&t).map(|x| x.es).unwrap_or(false)).await;
        }
        TargetState::ResetByE => {
            p.open_request(t, "POST", "/target", &[f("x-vp-id", "3")], false).await;
            reached = p.until(|s| s.streams.get(&t).map(|x| x.rst.is_some()).unwrap_or(false)).await;
        }
        TargetState::RefusedByE => {
            p.open_request(t, "POST", "/target", &[f("x-vp-id", "4")], false).await;
            reached = p.until(|s| s.streams.get(&t).map(|x| x.rst.is_some()).unwrap_or(false)).await && p.sh.streams.get(&t).and_then(|x| x.rst) == Some(7);
        }
        TargetState::ResetByPeer => {
            p.open_request(t, "POST", "/target", &[f("x-vp-id", "4")], false).await;
            p.settle_world(100_000).await;
            let mut b = Vec::new();
            rst(t, 8, &mut b);
            p.send(&b).await;
            p.settle_world(100_000).await;
        }
    }
    p.pump_now();
    p.settle().await;
    if !reached || p.sh.eof_from_e || p.sh.e_goaways.iter().any(|g| g.1 != 0) {
        rep.borrow_mut().state_reached = false;
        return;
    }
    let remembers = sc.server_cfg.reset_stream_duration_s != Some(0) && sc.server_cfg.max_concurrent_reset_streams != Some(0);
    // the state class must hold in reality at the moment of injection
    let e_ended = p.sh.streams.get(&t).map(|x| x.es || x.rst.is_some()).unwrap_or(false);
    if matches!(sc.state, TargetState::Open | TargetState::HalfClosedRemote) && e_ended {
        rep.borrow_mut().state_reached = false;
        finish(&mut p, w, sc.witness_body).await;
        return;
    }
    let made = item_bytes(&mut p, &sc.item, t, sc.state, &mut rng, remembers);
    let (bytes, expect, ends) = match made {
        Some(x) => x,
        None => {
            // not applicable to this state: finish politely
            finish(&mut p, w, sc.witness_body).await;
            return;
        }
    };
    let t_inj = sim::log(0, EvK::Note(format!("rawpeer: inject {} on stream {} in {:?}", sc.item, t, sc.state)));
    {
        let mut r = rep.borrow_mut();
        r.applied = true;
        r.inj_t = t_inj;
        r.target = t;
        r.witness = w;
        r.expect = Some(expect.clone());
        r.ends_target = ends;
        r.state_reached = true;
    }
    if sc.item.contains("zero-length-continuations") || sc.item.contains("headers-with-priority") || sc.item == "headers-self-dependency" {
        p.mark_used(t);
    }
    p.send(&bytes).await;
    p.settle_world(100_000).await;
    sim::open_gate();
    if sc.state == TargetState::RefusedByE {
        // let the filler finish so that the probe finds a free slot
        p.settle_world(100_000).await;
    }
    // probe: a fresh request must still be served after stream-level reactions / legal items
    let conn_dead = p.sh.eof_from_e || !p.sh.e_goaways.is_empty();
    if !conn_dead {
        let pr = p.alloc_sid_above(t + 2);
        rep.borrow_mut().probe = pr;
        p.open_request(pr, "GET", "/probe", &[f("x-vp-id", "5")], true).await;
        p.until(|s| s.streams.get(&pr).map(|x| x.es || x.rst.is_some()).unwrap_or(false) || !s.e_goaways.is_empty()).await;
    }
    finish(&mut p, w, sc.witness_body).await;
}

async fn finish(p: &mut RawPeer, w: u32, witness_body: usize) {
    sim::open_gate();
    if !p.sh.eof_from_e && p.sh.e_goaways.is_empty() {
        if let Some(t) = p.open_target.take() {
            let mut b = Vec::new();
            data(t, b"", true, None, &mut b);
            p.send(&b).await;
        }
        let off = (witness_body / 2) as u64;
        p.send_data_legal(w, 2, off, witness_body - witness_body / 2, true).await;
        p.until(|s| s.streams.get(&w).map(|x| x.es || x.rst.is_some()).unwrap_or(false) || !s.e_goaways.is_empty()).await;
    }
    // graceful end: GOAWAY + close
    let mut b = Vec::new();
    goaway(0, 0, b"", &mut b);
    p.send(&b).await;
    p.serve_for(10).await;
    p.close();
    p.serve_forever().await;
}

impl RawPeer {
    pub fn alloc_sid(&mut self) -> u32 {
        let s = self.next_own_sid;
        self.next_own_sid += 2;
        self.used_ids.push(s);
        s
    }
    pub fn peek_sid(&self) -> u32 {
        self.next_own_sid
    }
    pub fn mark_used(&mut self, sid: u32) {
        self.used_ids.push(sid);
        if sid >= self.next_own_sid {
            self.next_own_sid = sid + 2;
        }
    }
    pub fn alloc_sid_above(&mut self, min: u32) -> u32 {
        let mut m = self.next_own_sid.max(min);
        if m % 2 != self.next_own_sid % 2 {
            m += 1;
        }
        self.next_own_sid = m;
        self.alloc_sid()
    }
    /// Close the peer's write direction (clean EOF towards E).
    pub fn close(&mut self) {
        let (pipe, d) = (self.pipe, self.side.wdir());
        let wk = sim::with(|w| {
            let sim::World { pipes, trace, .. } = w;
            pipes[pipe].force_fault(d, sim::FaultKind::CutEof, trace)
        });
        if let Some(wk) = wk {
            wk.wake();
        }
    }
}

fn catalogue_specs(witness_body: usize) -> Vec<StreamSpec> {
    let mut rng = Rng::new(1);
    let o = GenOpts { focus: Focus::General, coop: true, max_streams: 1, max_body: 10, small: true };
    let base = crate::apps::spec::generate(1, &o).streams[0].clone();
    let mk = |idx: u32, resp_chunks: Vec<usize>, when: RespondWhen, reset: Option<u32>| {
        let mut s = base.clone();
        s.idx = idx;
        s.informational.clear();
        s.pushes.clear();
        s.status = 200;
        s.req_read = ReadPlan { mode: ReadMode::All, release: Release::Immediate, check_end_stream: false, pace: 0 };
        s.resp = MsgPlan { fields: vec![("x-resp".into(), b"1".to_vec())], chunks: resp_chunks, eos: EosMode::OnLastData, cap: CapMode::Direct, abort: None, pace: 0 };
        s.respond_when = when;
        s.server_reset = reset;
        s.respond_delay = 0;
        s.respond_gate = false;
        s
    };
    let _ = &mut rng;
    vec![
        mk(1, vec![witness_body.max(1)], RespondWhen::AfterRequestRead, None),
        mk(2, vec![5], RespondWhen::Immediately, None),
        mk(3, vec![5], RespondWhen::Immediately, Some(8)),
        {
            let mut s = mk(4, vec![5], RespondWhen::AfterRequestRead, None);
            s.respond_gate = true;
            s
        },
        mk(5, vec![3], RespondWhen::Immediately, None),
        {
            // answers at once but keeps its response body open for a long while
            let mut s = mk(6, vec![5, 5, 5, 5], RespondWhen::Immediately, None);
            s.resp.pace = 250;
            s
        },
    ]
}

pub fn run_catalogue(sc: &CatalogueScenario) -> Outcome {
    sim::install(sc.seed, sc.sched);
    sim::with(|w| {
        w.gone_write_err = (0, 1);
        w.pipes.push(PipeState::new(0, sc.prof[0].clone(), sc.prof[1].clone()));
    });
    let server_ctl: ConnCtlRef = Default::default();
    let shook = SnapHook::new(Side::Server, sc.server_cfg.conn_window());
    let sctx = Ctx { conn: 0, side: Side::Server };
    let specs = catalogue_specs(sc.witness_body);
    sim::spawn("server-main", TaskKind::Conn, server_main(sctx, PipeEnd::new(0, Side::Server), sc.server_cfg.clone(), specs, server_ctl.clone(), shook.clone(), None));
    let rep: Rc<RefCell<CatReport>> = Default::default();
    let peer = RawPeer::new(0, Side::Client);
    sim::spawn("raw-peer", TaskKind::App, catalogue_peer(peer, sc.clone(), rep.clone()));
    let end = sim::run(2_000_000);
    finish_raw(end, Side::Server, &[&shook], |view, viol, stats, notes| {
        let r = rep.borrow().clone();
        judge_catalogue(view, sc, &r, viol, stats, notes);
    })
}

/// Common teardown for raw scenarios: wire/snapshot/panic/busy-loop oracles for E, then the family's own.
pub fn finish_raw(end: RunEnd, e: Side, hooks: &[&SnapHook], family: impl FnOnce(&View, &mut Vec<Violation>, &mut Stats, &mut Vec<String>)) -> Outcome {
    let quiescent = end == RunEnd::Quiescent;
    let limit = sim::events_len();
    let w = sim::uninstall();
    let mut violations = Vec::new();
    let mut stats = Stats::default();
    let mut notes = Vec::new();
    let mut fp = crate::rng::Fnv::default();
    {
        let view = View { w: &w, conn: 0, limit };
        let out = mon::wire::check_endpoint(&view, e);
        violations.extend(out.violations);
        stats.merge(&out.stats);
        fp.add_u64(out.fp);
        family(&view, &mut violations, &mut stats, &mut notes);
    }
    for hook in hooks {
        let st = hook.0.borrow();
        violations.extend(st.violations.iter().cloned());
        stats.add("snapshots", st.count);
        stats.max("max.e.slab", st.max_slab as u64);
        stats.max("max.e.recv_buffer", st.max_recv_buffer as u64);
        stats.max("max.e.send_buffer", st.max_send_buffer as u64);
    }
    stats.add("polls", w.stats.polls);
    stats.add("conn_polls", w.stats.conn_polls);
    fp.add_u64(w.stats.sched_fp);
    for t in &w.tasks {
        if t.kind == TaskKind::Conn && t.max_self_streak > 64 {
            violations.push(Violation::new("C08", "connection-task-busy-loop", format!("task {} woke itself {} consecutive times without I/O or API activity", t.name, t.max_self_streak)));
        }
        if t.kind == TaskKind::Conn {
            stats.max("max.conn_self_streak", t.max_self_streak as u64);
        }
    }
    for p in &w.stats.panics {
        if p.contains("self.slab.is_empty()") || p.contains("!self.has_streams()") {
            notes.push(format!("unstable drop assertion: {}", p));
            stats.inc("unstable_drop_assertion");
        } else {
            violations.push(Violation::new("C08", format!("panic:{}", panic_rule(p)), p.clone()));
        }
    }
    for d in 0..2 {
        let dir = &w.pipes[0].dirs[d];
        stats.add("bytes_written", dir.written);
        stats.add("mid_frame_writes", dir.mid_frame_writes);
    }
    if !quiescent {
        stats.inc("budget_exhausted");
    }
    let trace_tail: Vec<String> = {
        let evs = &w.trace.evs[..limit];
        let start = evs.len().saturating_sub(if std::env::var("VH_FULL_TRACE").is_ok() { usize::MAX } else { 200 });
        evs[start..].iter().filter(|e| !matches!(e.k, EvK::ReadOff { .. } | EvK::Deliver { .. } | EvK::ConnPoll { .. })).map(|e| fmt_ev(&w, e)).collect()
    };
    if w.poisoned {
        std::mem::forget(w);
    } else {
        let r = catch_unwind(AssertUnwindSafe(move || drop(w)));
        if let Err(p) = r {
            let msg = if let Some(s) = p.downcast_ref::<&str>() { s.to_string() } else if let Some(s) = p.downcast_ref::<String>() { s.clone() } else { "?".into() };
            if msg.contains("self.slab.is_empty()") || msg.contains("!self.has_streams()") {
                stats.inc("unstable_drop_assertion");
            } else {
                violations.push(Violation::new("C08", format!("panic:{}", panic_rule(&msg)), format!("panic while dropping handles: {}", msg)));
            }
        }
    }
    Outcome {
        violations,
        notes,
        stats,
        fp: fp.0,
        nontrivial: BTreeMap::new(),
        quiescent,
        steps_exhausted: !quiescent,
        trace_tail,
    }
}

fn judge_catalogue(view: &View, sc: &CatalogueScenario, r: &CatReport, viol: &mut Vec<Violation>, stats: &mut Stats, notes: &mut Vec<String>) {
    if !r.applied {
        stats.inc(if r.state_reached { "catalogue.not_applicable" } else { "catalogue.state_not_reached" });
        return;
    }
    // the state class must have held in reality, from E's point of view, at the moment of injection
    {
        let mut accepted = false;
        let mut e_submitted_end = false;
        for (ev, a) in mon::apis(view.evs()) {
            if ev.t >= r.inj_t || a.side != Side::Server || a.sid != r.target || a.phase != Phase::Ret {
                continue;
            }
            match a.op {
                Op::Accept if matches!(a.res, Res::Ok) => accepted = true,
                Op::SendData | Op::SendTrailers | Op::SendResponse if a.flag && matches!(a.res, Res::Ok) => e_submitted_end = true,
                Op::SendReset => e_submitted_end = true,
                _ => {}
            }
        }
        let e_frames = &view.w.pipes[0].dirs[1];
        let mut e_rst_before = false;
        let mut e_es_before = false;
        for (i, fr) in e_frames.frames.iter().enumerate() {
            if fr.sid == r.target && e_frames.t_written[i] < r.inj_t {
                if matches!(fr.body, Body::Rst { .. }) {
                    e_rst_before = true;
                }
                if fr.end_stream() {
                    e_es_before = true;
                }
            }
        }
        let ok = match sc.state {
            TargetState::Idle => true,
            TargetState::Open | TargetState::HalfClosedRemote => accepted && !e_submitted_end && !e_rst_before,
            TargetState::ClosedClean => e_es_before && !e_rst_before,
            TargetState::ResetByE => e_rst_before,
            TargetState::RefusedByE => e_rst_before && !accepted,
            TargetState::ResetByPeer => !e_rst_before,
        };
        if !ok {
            stats.inc("catalogue.state_not_reached");
            return;
        }
    }
    let cell = format!("{}@{:?}", sc.item, sc.state);
    stats.inc(&format!("cell.{}", cell));
    stats.inc("catalogue.applied");
    // E's frames written after the injection
    let dir = &view.w.pipes[0].dirs[1];
    let mut error_goaway: Option<u32> = None;
    let mut any_goaway = false;
    let mut rst_on: BTreeMap<u32, u32> = BTreeMap::new();
    let mut probe_answered = false;
    let mut witness_done = false;
    for (i, fr) in dir.frames.iter().enumerate() {
        let after = dir.t_written[i] > r.inj_t;
        match &fr.body {
            Body::GoAway { code, .. } if after => {
                any_goaway = true;
                if *code != 0 && error_goaway.is_none() {
                    error_goaway = Some(*code);
                }
            }
            Body::Rst { code } if after => {
                rst_on.insert(fr.sid, *code);
            }
            Body::Headers { block, .. } if fr.sid == r.probe && r.probe != 0 => {
                if block.status().is_some() {
                    probe_answered = true;
                }
            }
            _ => {}
        }
        if fr.sid == r.witness && fr.end_stream() {
            witness_done = true;
        }
    }
    let _ = any_goaway;
    let exp = r.expect.clone().unwrap();
    let describe = || format!("item {} on stream {} in state {:?}: error GOAWAY {:?}, RST_STREAM {:?}, probe answered {}, witness completed {}", sc.item, r.target, sc.state, error_goaway, rst_on, probe_answered, witness_done);
    match &exp {
        Expect::Conn(named) => {
            match error_goaway {
                None => viol.push(Violation::new("C09", format!("violation-not-answered-with-connection-error:{}", sc.item), describe())),
                Some(c) => {
                    stats.inc("reaction.conn_error");
                    if c != *named {
                        stats.inc(&format!("note.goaway_code_differs_from_rfc_named.{}", sc.item));
                    }
                }
            }
        }
        Expect::Stream(_) => {
            if error_goaway.is_some() {
                stats.inc("reaction.conn_error_for_stream_violation");
            } else if rst_on.contains_key(&r.target) {
                stats.inc("reaction.stream_error");
                // isolation: other streams keep working
                if rst_on.keys().any(|s| *s != r.target) {
                    viol.push(Violation::new("C09", format!("stream-error-not-contained:{}", sc.item), describe()));
                }
                if r.probe != 0 && !probe_answered {
                    viol.push(Violation::new("C09", format!("service-stopped-after-stream-error:{}", sc.item), describe()));
                }
                if !witness_done {
                    viol.push(Violation::new("C09", format!("other-stream-disturbed-by-stream-error:{}", sc.item), describe()));
                }
            } else {
                viol.push(Violation::new("C09", format!("violation-not-answered:{}", sc.item), describe()));
            }
        }
        Expect::Tolerate => {
            if let Some(c) = error_goaway {
                viol.push(Violation::new("C09", format!("legal-traffic-answered-with-connection-error:{}", sc.item), format!("{} (code {})", describe(), c)));
            } else {
                let bad_rst: Vec<_> = rst_on.iter().filter(|(s, _)| !(**s == r.target && (r.ends_target || matches!(sc.state, TargetState::ResetByE | TargetState::RefusedByE | TargetState::ResetByPeer | TargetState::ClosedClean)))).collect();
                if !bad_rst.is_empty() {
                    viol.push(Violation::new("C09", format!("legal-traffic-answered-with-stream-error:{}", sc.item), describe()));
                }
                if r.probe != 0 && !probe_answered {
                    viol.push(Violation::new("C09", format!("service-stopped-after-legal-traffic:{}", sc.item), describe()));
                }
                if !witness_done {
                    viol.push(Violation::new("C09", format!("other-stream-disturbed-by-legal-traffic:{}", sc.item), describe()));
                }
                stats.inc("reaction.tolerated");
            }
        }
        Expect::Any => stats.inc("reaction.any"),
    }
    // containment: nothing attributable to a violating frame reaches the application
    if !matches!(exp, Expect::Tolerate | Expect::Any) {
        for (ev, a) in mon::apis(view.evs()) {
            if ev.t > r.inj_t && a.side == Side::Server && a.phase == Phase::Ret {
                if a.op == Op::Accept && matches!(a.res, Res::Ok) && a.sid == r.target && sc.state == TargetState::Idle {
                    viol.push(Violation::new("C09", format!("violating-stream-surfaced-to-application:{}", sc.item), describe()));
                }
                if a.op == Op::PollData && matches!(a.res, Res::Ok) && a.sid == r.target && a.b > 0 && !a.flag {
                    // bytes that are not part of the legal position-coded body were delivered
                    viol.push(Violation::new("C09", format!("violating-data-surfaced-to-application:{}", sc.item), describe()));
                }
            }
        }
    }
    notes.push(describe());
}

// keep Bytes import used
#[allow(dead_code)]
fn _b() -> Bytes {
    Bytes::new()
}
#[allow(dead_code)]
fn _s(_s: &Shadow) {}

// =====================================================================================
// Family `headers` (C13): malformed / well-formed HTTP messages built from a grammar.
// =====================================================================================

#[derive(Debug, Clone, Copy, PartialEq, Eq)]
pub enum MsgKind {
    Request,
    Response,
    Interim,
    Trailers,
    PushedRequest,
}

#[derive(Debug, Clone)]
pub struct HeadersScenario {
    pub seed: u64,
    /// E's role
    pub e_server: bool,
    pub kind: MsgKind,
    pub fields: Vec<Field>,
    pub defect: Option<&'static str>,
    /// DATA frame sizes following the head (the last one carries END_STREAM unless trailers follow)
    pub body: Vec<usize>,
    pub head_eos: bool,
    pub method: String,
    pub status: u16,
    pub prof: [sim::DirProfile; 2],
    pub sched: sim::Sched,
    pub enable_connect: bool,
}

/// The reference predicate: RFC 9113 section 8 MUST-level rules named by the property, nothing else.
/// `declared`: body length actually sent; `may_have_body`: false for responses to HEAD / 1xx / 204 / 304.
pub fn malformed(kind: MsgKind, fields: &[Field], body_total: Option<u64>, request_method: &str, enable_connect: bool) -> Option<&'static str> {
    let mut seen_regular = false;
    let mut pseudo: BTreeMap<&[u8], usize> = BTreeMap::new();
    let mut cl: Vec<&[u8]> = Vec::new();
    for (n, v) in fields {
        if n.first() == Some(&b':') {
            if seen_regular {
                return Some("pseudo-after-regular");
            }
            *pseudo.entry(n.as_slice()).or_insert(0) += 1;
            match (kind, n.as_slice()) {
                (MsgKind::Trailers, _) => return Some("pseudo-in-trailers"),
                (MsgKind::Request | MsgKind::PushedRequest, b":method" | b":scheme" | b":authority" | b":path") => {}
                (MsgKind::Request, b":protocol") => {
                    if !enable_connect {
                        return Some("protocol-without-setting");
                    }
                }
                (MsgKind::Response | MsgKind::Interim, b":status") => {}
                (_, b":method" | b":scheme" | b":authority" | b":path" | b":status" | b":protocol") => return Some("pseudo-wrong-direction"),
                _ => return Some("pseudo-unknown"),
            }
        } else {
            seen_regular = true;
            if n.iter().any(|c| c.is_ascii_uppercase()) {
                return Some("uppercase-name");
            }
            match n.as_slice() {
                b"connection" | b"keep-alive" | b"proxy-connection" | b"transfer-encoding" | b"upgrade" => return Some("connection-specific"),
                b"te" => {
                    if v.as_slice() != b"trailers" {
                        return Some("te-not-trailers");
                    }
                }
                b"content-length" => cl.push(v),
                _ => {}
            }
        }
    }
    if pseudo.values().any(|c| *c > 1) {
        return Some("pseudo-duplicated");
    }
    let has = |n: &[u8]| pseudo.contains_key(n);
    let get = |n: &[u8]| fields.iter().find(|(k, _)| k.as_slice() == n).map(|(_, v)| v.as_slice());
    match kind {
        MsgKind::Request | MsgKind::PushedRequest => {
            if !has(b":method") {
                return Some("missing-method");
            }
            let m = get(b":method").unwrap();
            if m == b"CONNECT" && !has(b":protocol") {
                if has(b":scheme") || has(b":path") {
                    return Some("connect-with-scheme-or-path");
                }
                if !has(b":authority") {
                    return Some("connect-without-authority");
                }
            } else {
                if !has(b":scheme") {
                    return Some("missing-scheme");
                }
                if !has(b":path") {
                    return Some("missing-path");
                }
                let sch = get(b":scheme").unwrap();
                if (sch == b"http" || sch == b"https") && get(b":path").unwrap().is_empty() {
                    return Some("empty-path");
                }
            }
        }
        MsgKind::Response | MsgKind::Interim => {
            if !has(b":status") {
                return Some("missing-status");
            }
        }
        MsgKind::Trailers => {}
    }
    // content-length: judged only as "disagrees with the DATA actually received" (the property's wording),
    // i.e. on messages that may carry content; a value that is not a number, or two different values,
    // cannot agree with any body
    if !cl.is_empty() && matches!(kind, MsgKind::Request | MsgKind::Response) {
        let status = get(b":status").and_then(|s| std::str::from_utf8(s).ok()).and_then(|s| s.parse::<u16>().ok());
        let no_body_allowed = matches!(kind, MsgKind::Response) && (request_method == "HEAD" || matches!(status, Some(204) | Some(304)));
        if !no_body_allowed {
            let mut vals = Vec::new();
            for v in &cl {
                if v.is_empty() || !v.iter().all(|c| c.is_ascii_digit()) {
                    return Some("content-length-not-numeric");
                }
                vals.push(std::str::from_utf8(v).unwrap().parse::<u128>().unwrap_or(u128::MAX));
            }
            if vals.iter().any(|x| *x != vals[0]) {
                return Some("content-length-conflict");
            }
            if let Some(total) = body_total {
                if vals[0] != total as u128 {
                    return Some("content-length-mismatch");
                }
            }
        }
    }
    None
}

pub fn gen_headers(seed: u64) -> HeadersScenario {
    let mut rng = Rng::new(seed ^ 0x13c1_3c13);
    let e_server = rng.chance(1, 2);
    let kind = if e_server { MsgKind::Request } else { *rng.pick(&[MsgKind::Response, MsgKind::Response, MsgKind::Interim, MsgKind::Trailers, MsgKind::PushedRequest]) };
    let method = rng.pick(&["GET", "POST", "PUT", "HEAD", "OPTIONS", "CONNECT", "DELETE"]).to_string();
    let status = *rng.pick(&[200u16, 200, 201, 204, 304, 404, 500]);
    let enable_connect = rng.chance(1, 4);
    let mut fields: Vec<Field> = Vec::new();
    // baseline valid head
    match kind {
        MsgKind::Request | MsgKind::PushedRequest => {
            let m = if kind == MsgKind::PushedRequest { "GET" } else { method.as_str() };
            fields.push(f(":method", m));
            if m == "CONNECT" {
                fields.push(f(":authority", "vp.test:443"));
            } else {
                fields.push(f(":scheme", *rng.pick(&["https", "http"])));
                fields.push(f(":authority", "vp.test"));
                fields.push(f(":path", if m == "OPTIONS" && rng.chance(1, 2) { "*" } else { "/a/b?c=d" }));
            }
        }
        MsgKind::Response => fields.push(f(":status", &status.to_string())),
        MsgKind::Interim => fields.push(f(":status", *rng.pick(&["100", "103"]))),
        MsgKind::Trailers => {}
    }
    let n_reg = rng.range(0, 4);
    for i in 0..n_reg {
        fields.push(f(&format!("x-ok-{}", i), "v"));
    }
    fields.push(f("x-vp-id", "2"));
    // body plan
    let mut body: Vec<usize> = match rng.below(4) {
        0 => vec![],
        1 => vec![rng.range(1, 300) as usize],
        2 => vec![rng.range(1, 300) as usize, rng.range(0, 300) as usize],
        _ => vec![0],
    };
    if matches!(kind, MsgKind::Interim | MsgKind::Trailers | MsgKind::PushedRequest) {
        body = vec![];
    }
    if kind == MsgKind::Request && method == "CONNECT" {
        body = vec![];
    }
    let total: usize = body.iter().sum();
    // valid variations
    match rng.below(6) {
        0 => fields.push(f("te", "trailers")),
        1 if matches!(kind, MsgKind::Request | MsgKind::Response) => fields.push(f("content-length", &total.to_string())),
        2 if matches!(kind, MsgKind::Request | MsgKind::Response) => {
            fields.push(f("content-length", &total.to_string()));
            fields.push(f("content-length", &total.to_string()));
        }
        _ => {}
    }
    // one defect, or none
    let defects: &[&'static str] = &[
        "none", "none", "uppercase-name", "connection", "keep-alive", "proxy-connection", "transfer-encoding", "upgrade", "te-gzip", "te-trailers-gzip", "pseudo-unknown", "pseudo-duplicated",
        "pseudo-after-regular", "pseudo-wrong-direction", "missing-mandatory", "empty-path", "connect-with-path", "content-length-short", "content-length-long", "content-length-conflict",
        "content-length-not-numeric", "missing-authority-and-path",
    ];
    let d = *rng.pick(defects);
    let mut defect = if d == "none" { None } else { Some(d) };
    let is_req = matches!(kind, MsgKind::Request | MsgKind::PushedRequest);
    match d {
        "uppercase-name" => fields.push(f("X-Upper", "1")),
        "connection" => fields.push(f("connection", "close")),
        "keep-alive" => fields.push(f("keep-alive", "timeout=5")),
        "proxy-connection" => fields.push(f("proxy-connection", "keep-alive")),
        "transfer-encoding" => fields.push(f("transfer-encoding", "chunked")),
        "upgrade" => fields.push(f("upgrade", "h2c")),
        "te-gzip" => fields.push(f("te", "gzip")),
        "te-trailers-gzip" => fields.push(f("te", "trailers, gzip")),
        "pseudo-unknown" => fields.insert(0, f(":foo", "bar")),
        "pseudo-duplicated" => {
            if let Some(first) = fields.iter().find(|(n, _)| n.first() == Some(&b':')).cloned() {
                let mut dup = first.clone();
                if rng.chance(1, 2) {
                    dup.1 = b"other".to_vec();
                }
                fields.insert(1, dup);
            } else {
                defect = None;
            }
        }
        "pseudo-after-regular" => {
            if kind == MsgKind::Trailers {
                defect = None;
            } else {
                // move the last pseudo header behind a regular field
                if let Some(pos) = fields.iter().rposition(|(n, _)| n.first() == Some(&b':')) {
                    let p = fields.remove(pos);
                    fields.insert(0, f("x-first", "1"));
                    fields.push(p);
                } else {
                    defect = None;
                }
            }
        }
        "pseudo-wrong-direction" => {
            if is_req {
                fields.insert(1, f(":status", "200"));
            } else {
                fields.insert(0, f(if rng.chance(1, 2) { ":path" } else { ":method" }, if rng.chance(1, 2) { "/" } else { "GET" }));
            }
        }
        "missing-mandatory" => {
            let pseudos: Vec<usize> = fields.iter().enumerate().filter(|(_, (n, _))| n.first() == Some(&b':') && n.as_slice() != b":authority").map(|(i, _)| i).collect();
            // (a HEADERS block without :status cannot be told apart as "interim": that case is the
            // Response kind's missing-status)
            if pseudos.is_empty() || kind == MsgKind::Interim || (is_req && method == "CONNECT" && kind == MsgKind::Request) {
                defect = None;
            } else {
                let i = *rng.pick(&pseudos);
                fields.remove(i);
            }
        }
        "missing-authority-and-path" => {
            if is_req && !(method == "CONNECT" && kind == MsgKind::Request) {
                fields.retain(|(n, _)| n.as_slice() != b":authority" && n.as_slice() != b":path");
            } else {
                defect = None;
            }
        }
        "empty-path" => {
            if let Some(pf) = fields.iter_mut().find(|(n, _)| n.as_slice() == b":path") {
                pf.1 = Vec::new();
            } else {
                defect = None;
            }
        }
        "connect-with-path" => {
            if kind == MsgKind::Request && method == "CONNECT" {
                fields.insert(1, f(":path", "/x"));
            } else {
                defect = None;
            }
        }
        "content-length-short" | "content-length-long" | "content-length-conflict" | "content-length-not-numeric" => {
            if matches!(kind, MsgKind::Request | MsgKind::Response) {
                fields.retain(|(n, _)| n.as_slice() != b"content-length");
                match d {
                    "content-length-short" => fields.push(f("content-length", &(total + 1 + rng.range(0, 50) as usize).to_string())),
                    "content-length-long" => {
                        if total == 0 {
                            defect = None;
                        } else {
                            fields.push(f("content-length", &(total - 1).to_string()));
                        }
                    }
                    "content-length-conflict" => {
                        fields.push(f("content-length", &total.to_string()));
                        fields.push(f("content-length", &(total + 7).to_string()));
                    }
                    _ => fields.push(f("content-length", *rng.pick(&["12a", "-1", "", "1e3", "99999999999999999999999"]))),
                }
            } else {
                defect = None;
            }
        }
        _ => {}
    }
    if kind == MsgKind::Trailers {
        // trailers carry no pseudo headers unless that is the defect
        if d == "pseudo-unknown" || d == "pseudo-wrong-direction" {
            // already has one
        } else {
            fields.retain(|(n, _)| n.first() != Some(&b':'));
        }
        if rng.chance(1, 3) && defect.is_none() {
            fields.insert(0, f(":status", "418"));
            defect = Some("pseudo-in-trailers");
        }
    }
    let head_eos = body.is_empty() && !matches!(kind, MsgKind::Interim);
    HeadersScenario { seed, e_server, kind, fields, defect, body, head_eos, method, status, prof: [gen_profile(&mut rng), gen_profile(&mut rng)], sched: gen_sched(&mut rng), enable_connect }
}

#[derive(Default, Debug, Clone)]
pub struct HdrReport {
    pub sent: bool,
    pub target: u32,
    pub inj_t: u64,
}

/// Encode a field list and choose how the block is cut into HEADERS/PUSH_PROMISE + CONTINUATION frames:
/// whole, at a field boundary (a CONTINUATION then *begins* with some field of the list), at an arbitrary
/// octet (possibly in the middle of a field), or into many small fragments. Returns (block, first_max, cont_max)
/// for the serializer (`cont_max == 0` = one frame).
fn cut_block(p: &mut RawPeer, fields: &[Field], rng: &mut Rng) -> (Vec<u8>, usize, usize) {
    let mut block = Vec::new();
    let mut bounds = Vec::new();
    for fl in fields {
        let part = p.encode_block(std::slice::from_ref(fl));
        block.extend_from_slice(&part);
        bounds.push(block.len());
    }
    let len = block.len();
    if len < 2 || fields.len() < 2 {
        return (block, 0, 0);
    }
    match rng.below(20) {
        0..=7 => (block, 0, 0),
        8..=12 => {
            let k = rng.usize_below(fields.len() - 1);
            (block, bounds[k], len)
        }
        13..=16 => (block, 1 + rng.usize_below(len - 1), len),
        _ => (block, 1 + rng.usize_below(len.min(40)), 1 + rng.usize_below(50)),
    }
}

async fn headers_peer_client(mut p: RawPeer, sc: HeadersScenario, rep: Rc<RefCell<HdrReport>>) {
    if !p.handshake(&[(S_INITIAL_WINDOW_SIZE, 1 << 20)]).await {
        return;
    }
    // a healthy stream first (isolation witness), then the generated request
    let w = p.alloc_sid();
    p.open_request(w, "GET", "/witness", &[f("x-vp-id", "5")], true).await;
    let t = p.alloc_sid();
    let mut crng = Rng::new(sc.seed ^ 0xc07);
    let (block, fm, cm) = cut_block(&mut p, &sc.fields, &mut crng);
    let mut b = Vec::new();
    headers(t, &block, sc.head_eos, None, None, fm, cm, &mut b);
    let t_inj = sim::log(0, EvK::Note(format!("rawpeer: generated request on stream {} defect {:?} cut ({}, {}) of {}", t, sc.defect, fm, cm, block.len())));
    {
        let mut r = rep.borrow_mut();
        r.sent = true;
        r.target = t;
        r.inj_t = t_inj;
    }
    p.send(&b).await;
    let n = sc.body.len();
    let mut off = 0u64;
    for (i, len) in sc.body.iter().enumerate() {
        if p.sh.streams.get(&t).map(|s| s.rst.is_some()).unwrap_or(false) {
            break;
        }
        p.send_data_legal(t, 4, off, *len, i + 1 == n).await;
        off += *len as u64;
    }
    p.until(|s| s.streams.get(&t).map(|x| x.es || x.rst.is_some()).unwrap_or(false) || !s.e_goaways.is_empty()).await;
    p.until(|s| s.streams.get(&w).map(|x| x.es || x.rst.is_some()).unwrap_or(false) || !s.e_goaways.is_empty()).await;
    let mut b = Vec::new();
    goaway(0, 0, b"", &mut b);
    p.send(&b).await;
    p.serve_for(10).await;
    p.close();
    p.serve_forever().await;
}

/// E = h2 client issuing one request (spec idx 2); the peer (server role) answers with the generated message.
async fn headers_peer_server(mut p: RawPeer, sc: HeadersScenario, rep: Rc<RefCell<HdrReport>>) {
    if !p.handshake(&[(S_INITIAL_WINDOW_SIZE, 1 << 20), (S_MAX_CONCURRENT_STREAMS, 100)]).await {
        return;
    }
    if !p.until(|s| !s.opened_by_e.is_empty()).await {
        return;
    }
    let t = p.sh.opened_by_e[0];
    // let the request finish
    p.until(|s| s.streams.get(&t).map(|x| x.es || x.rst.is_some()).unwrap_or(false)).await;
    let t_inj = sim::log(0, EvK::Note(format!("rawpeer: generated {:?} on stream {} defect {:?}", sc.kind, t, sc.defect)));
    {
        let mut r = rep.borrow_mut();
        r.sent = true;
        r.target = t;
        r.inj_t = t_inj;
    }
    let mut b = Vec::new();
    let mut crng = Rng::new(sc.seed ^ 0xc07);
    match sc.kind {
        MsgKind::Response => {
            let (block, fm, cm) = cut_block(&mut p, &sc.fields, &mut crng);
            headers(t, &block, sc.head_eos, None, None, fm, cm, &mut b);
            p.send(&b).await;
            let n = sc.body.len();
            let mut off = 0u64;
            for (i, len) in sc.body.iter().enumerate() {
                if p.sh.streams.get(&t).map(|s| s.rst.is_some()).unwrap_or(false) {
                    break;
                }
                p.send_data_legal(t, 5, off, *len, i + 1 == n).await;
                off += *len as u64;
            }
        }
        MsgKind::Interim => {
            let (block, fm, cm) = cut_block(&mut p, &sc.fields, &mut crng);
            headers(t, &block, false, None, None, fm, cm, &mut b);
            p.send(&b).await;
            p.serve_for(5).await;
            p.respond(t, 200, &[], true).await;
        }
        MsgKind::Trailers => {
            p.respond(t, 200, &[], false).await;
            p.send_data_legal(t, 5, 0, 10, false).await;
            let (block, fm, cm) = cut_block(&mut p, &sc.fields, &mut crng);
            let mut b = Vec::new();
            headers(t, &block, true, None, None, fm, cm, &mut b);
            p.send(&b).await;
        }
        MsgKind::PushedRequest => {
            let (block, fm, cm) = cut_block(&mut p, &sc.fields, &mut crng);
            push_promise(t, 2, &block, None, fm, cm, &mut b);
            p.send(&b).await;
            p.settle_world(100_000).await;
            p.respond(2, 200, &[], true).await;
            p.respond(t, 200, &[], true).await;
        }
        MsgKind::Request => {}
    }
    p.settle_world(100_000).await;
    let mut b = Vec::new();
    goaway(t, 0, b"", &mut b);
    p.send(&b).await;
    p.serve_for(10).await;
    p.close();
    p.serve_forever().await;
}

/// A minimal h2 client application for raw scenarios: handshake, connection task, requesters.
pub async fn raw_client_app(ctx: Ctx, io: PipeEnd, cfg: EpCfg, specs: Vec<StreamSpec>, ctl: ConnCtlRef, hooks: SnapHook) {
    let r = client_builder(&cfg).handshake::<_, crate::apps::actors::BodyBuf>(io).await;
    let (sr, conn) = match r {
        Ok(x) => x,
        Err(_) => {
            ctl.borrow_mut().done = true;
            return;
        }
    };
    sim::spawn("client-conn", TaskKind::Conn, client_conn_task(ctx.clone(), conn, ctl.clone(), hooks));
    let done = Rc::new(RefCell::new(0u32));
    sim::spawn("client-req", TaskKind::App, client_requester(ctx.clone(), sr, specs, done, None));
}

pub fn plain_spec(idx: u32, method: &str, req_chunks: Vec<usize>, resp_chunks: Vec<usize>) -> StreamSpec {
    let o = GenOpts { focus: Focus::General, coop: true, max_streams: 1, max_body: 10, small: true };
    let mut s = crate::apps::spec::generate(1, &o).streams[0].clone();
    s.idx = idx;
    s.method = method.to_string();
    s.path = "/x".into();
    s.informational.clear();
    s.pushes.clear();
    s.status = 200;
    s.req = MsgPlan { fields: vec![], chunks: req_chunks, eos: EosMode::OnLastData, cap: CapMode::Direct, abort: None, pace: 0 };
    if s.req.chunks.is_empty() {
        s.req.eos = EosMode::OnHead;
    }
    s.resp = MsgPlan { fields: vec![], chunks: resp_chunks, eos: EosMode::OnLastData, cap: CapMode::Direct, abort: None, pace: 0 };
    s.req_read = ReadPlan { mode: ReadMode::All, release: Release::Immediate, check_end_stream: false, pace: 0 };
    s.resp_read = s.req_read.clone();
    s.respond_when = RespondWhen::Immediately;
    s.server_reset = None;
    s.client_cancel_after = None;
    s.client_polls_info = true;
    s.client_polls_push = true;
    s.start_delay = 0;
    s.respond_delay = 0;
    s.respond_gate = false;
    s.via_clone = 0;
    s
}

pub fn run_headers(sc: &HeadersScenario) -> Outcome {
    sim::install(sc.seed, sc.sched);
    sim::with(|w| {
        w.gone_write_err = (0, 1);
        w.pipes.push(PipeState::new(0, sc.prof[0].clone(), sc.prof[1].clone()));
    });
    let rep: Rc<RefCell<HdrReport>> = Default::default();
    let ctl: ConnCtlRef = Default::default();
    let mut cfg = EpCfg::default();
    cfg.data_frame_budget = Some(1 << 40);
    let e = if sc.e_server { Side::Server } else { Side::Client };
    let hook = SnapHook::new(e, 65_535);
    if sc.e_server {
        cfg.enable_connect_protocol = sc.enable_connect;
        let specs = vec![plain_spec(2, "POST", vec![], vec![3]), plain_spec(5, "GET", vec![], vec![3])];
        sim::spawn("server-main", TaskKind::Conn, server_main(Ctx { conn: 0, side: Side::Server }, PipeEnd::new(0, Side::Server), cfg, specs, ctl.clone(), hook.clone(), None));
        sim::spawn("raw-peer", TaskKind::App, headers_peer_client(RawPeer::new(0, Side::Client), sc.clone(), rep.clone()));
    } else {
        let method = if sc.kind == MsgKind::Response { sc.method.as_str() } else { "GET" };
        let method = if method == "CONNECT" { "GET" } else { method };
        let specs = vec![plain_spec(2, method, vec![], vec![])];
        sim::spawn("client-app", TaskKind::App, raw_client_app(Ctx { conn: 0, side: Side::Client }, PipeEnd::new(0, Side::Client), cfg, specs, ctl.clone(), hook.clone()));
        sim::spawn("raw-peer", TaskKind::App, headers_peer_server(RawPeer::new(0, Side::Server), sc.clone(), rep.clone()));
    }
    let end = sim::run(2_000_000);
    finish_raw(end, e, &[&hook], |view, viol, stats, notes| {
        let r = rep.borrow().clone();
        judge_headers(view, sc, &r, viol, stats, notes);
    })
}

fn judge_headers(view: &View, sc: &HeadersScenario, r: &HdrReport, viol: &mut Vec<Violation>, stats: &mut Stats, notes: &mut Vec<String>) {
    if !r.sent {
        stats.inc("headers.not_sent");
        return;
    }
    let total: u64 = sc.body.iter().map(|x| *x as u64).sum();
    let req_method = if sc.e_server { "" } else if sc.kind == MsgKind::Response && sc.method != "CONNECT" { sc.method.as_str() } else { "GET" };
    let verdict = malformed(sc.kind, &sc.fields, Some(total), req_method, sc.enable_connect);
    stats.inc("headers.judged");
    stats.inc(&format!("headers.kind.{:?}.{}", sc.kind, if verdict.is_some() { "malformed" } else { "wellformed" }));
    if let Some(v) = verdict {
        stats.inc(&format!("headers.defect.{}", v));
        stats.inc("nontrivial");
    }
    let e = if sc.e_server { Side::Server } else { Side::Client };
    // what did E's application get for the target stream?
    let mut delivered_ok: Vec<String> = Vec::new();
    let mut clean_end = false;
    let mut body_error = false;
    let mut app_error = false;
    for (ev, a) in mon::apis(view.evs()) {
        if a.side != e || a.phase != Phase::Ret || ev.t < r.inj_t {
            continue;
        }
        if (a.sid == r.target || (sc.kind == MsgKind::PushedRequest && a.sid == 2)) && a.res.is_err() && matches!(a.op, Op::Response | Op::Informational | Op::PollData | Op::PollTrailers | Op::PushPromise | Op::PushedResponse) {
            app_error = true;
        }
        let on_target = a.sid == r.target || (sc.kind == MsgKind::PushedRequest && a.sid == 2);
        if !on_target {
            continue;
        }
        match (a.op, &a.res) {
            (Op::Accept, Res::Ok) if sc.kind == MsgKind::Request => delivered_ok.push("accept() returned the request".into()),
            (Op::Response, Res::Ok) if sc.kind == MsgKind::Response && a.sid == r.target => delivered_ok.push(format!("ResponseFuture returned status {:?}", a.msg.as_ref().and_then(|m| m.status))),
            (Op::Informational, Res::Ok) if sc.kind == MsgKind::Interim => delivered_ok.push("poll_informational returned the interim response".into()),
            (Op::PollTrailers, Res::Ok) if sc.kind == MsgKind::Trailers && a.flag => delivered_ok.push("poll_trailers returned the trailers".into()),
            (Op::PushPromise, Res::Ok) if sc.kind == MsgKind::PushedRequest => delivered_ok.push("push_promise returned the pushed request".into()),
            (Op::CleanEnd, _) if a.sid == r.target => clean_end = true,
            (Op::PollData, Res::Err(_)) | (Op::PollTrailers, Res::Err(_)) if a.sid == r.target => body_error = true,
            _ => {}
        }
    }
    // E's wire reaction
    let dir = &view.w.pipes[0].dirs[e.wdir()];
    let mut failed_on_wire = false;
    for (i, fr) in dir.frames.iter().enumerate() {
        if dir.t_written[i] < r.inj_t {
            continue;
        }
        match &fr.body {
            Body::Rst { .. } if fr.sid == r.target || (sc.kind == MsgKind::PushedRequest && fr.sid == 2) => failed_on_wire = true,
            Body::GoAway { code, .. } if *code != 0 => failed_on_wire = true,
            _ => {}
        }
    }
    // the stream counts as failed when E reset it / ended the connection with an error on the wire, or
    // when E's application was given an error for it (the RST_STREAM may not reach the wire before the
    // connection ends)
    let failed_on_wire = failed_on_wire || app_error;
    let describe = || {
        format!(
            "{:?} to h2 {} with fields {:?} body {:?}: reference verdict {:?}; application got {:?}; clean end {}; body error {}; failed on wire {}",
            sc.kind,
            if sc.e_server { "server" } else { "client" },
            sc.fields.iter().map(|(n, v)| format!("{}: {}", String::from_utf8_lossy(n), String::from_utf8_lossy(v))).collect::<Vec<_>>(),
            sc.body,
            verdict,
            delivered_ok,
            clean_end,
            body_error,
            failed_on_wire
        )
    };
    match verdict {
        Some(v) if v == "content-length-mismatch" => {
            // the head alone is fine; the body must not end cleanly
            if clean_end {
                viol.push(Violation::new("C13", format!("length-mismatch-reported-as-clean-end:{:?}", sc.kind), describe()));
            } else if !failed_on_wire {
                viol.push(Violation::new("C13", format!("length-mismatch-stream-not-failed:{:?}", sc.kind), describe()));
            }
        }
        Some(v) => {
            if !delivered_ok.is_empty() {
                viol.push(Violation::new("C13", format!("malformed-message-delivered:{:?}:{}", sc.kind, v), describe()));
            } else if !failed_on_wire {
                viol.push(Violation::new("C13", format!("malformed-message-stream-not-failed:{:?}:{}", sc.kind, v), describe()));
            }
        }
        None => {
            // converse (tolerance) is C09's business
            // outside h2's documented implementation limits nothing is demanded (content-length beyond u64)
            // (content-length beyond u64, or content-length fields that are not numbers / disagree with each other:
            // invalid per RFC 9110 whatever the message kind, h2 may reject them)
            let cls: Vec<&Vec<u8>> = sc.fields.iter().filter(|(n, _)| n.as_slice() == b"content-length").map(|(_, v)| v).collect();
            let huge_cl = cls.iter().any(|v| v.len() > 19 || v.is_empty() || !v.iter().all(|c| c.is_ascii_digit())) || cls.iter().any(|v| *v != cls[0]);
            if delivered_ok.is_empty() && !huge_cl && !(sc.kind == MsgKind::Request && sc.method == "CONNECT") && !(sc.kind == MsgKind::PushedRequest) {
                viol.push(Violation::new("C09", format!("wellformed-message-not-delivered:{:?}", sc.kind), describe()));
            }
        }
    }
    notes.push(describe());
}

// =====================================================================================
// Family `fuzz` (C08): hostile byte streams - grammar-generated frames in arbitrary
// order, mutated legal transcripts, extremes, random bytes - at any fragmentation.
// =====================================================================================

// ===================== C13 send side: the API must refuse what the receiving side must reject =====================

#[derive(Debug, Clone)]
pub struct SendHdrScenario {
    pub seed: u64,
    pub e_server: bool,
    /// "head" (request / response), "trailers", "informational", "push"
    pub position: &'static str,
    pub fields: crate::apps::spec::Fields,
    pub defects: Vec<&'static str>,
    pub prof: [sim::DirProfile; 2],
    pub sched: sim::Sched,
}

pub fn gen_sendhdr(seed: u64) -> SendHdrScenario {
    let mut rng = Rng::new(seed ^ 0x5e4d);
    let e_server = rng.chance(1, 2);
    let position = if e_server { *rng.pick(&["head", "head", "trailers", "informational", "push"]) } else { *rng.pick(&["head", "head", "trailers"]) };
    let bad: &[(&'static str, &'static str)] = &[("connection", "close"), ("connection", "te"), ("keep-alive", "timeout=5"), ("proxy-connection", "keep-alive"), ("transfer-encoding", "chunked"), ("upgrade", "h2c"), ("te", "gzip"), ("te", "trailers, gzip")];
    let mut fields: crate::apps::spec::Fields = Vec::new();
    let mut defects = Vec::new();
    // benign context first or last, a valid `te: trailers` on either side of the defect
    if rng.chance(1, 2) {
        fields.push(("x-ok-0".into(), b"v".to_vec()));
    }
    if rng.chance(1, 2) {
        fields.push(("te".into(), b"trailers".to_vec()));
    }
    for _ in 0..rng.range(0, 2) {
        let (n, v) = *rng.pick(bad);
        if n == "te" && fields.iter().any(|(x, _)| x == "te") {
            continue;
        }
        fields.push((n.into(), v.as_bytes().to_vec()));
        defects.push(n);
    }
    if rng.chance(1, 3) && !fields.iter().any(|(x, _)| x == "te") {
        fields.push(("te".into(), b"trailers".to_vec()));
    }
    if rng.chance(1, 2) {
        fields.push(("x-ok-1".into(), b"w".to_vec()));
    }
    SendHdrScenario { seed, e_server, position, fields, defects, prof: [gen_profile(&mut rng), gen_profile(&mut rng)], sched: gen_sched(&mut rng) }
}

async fn sendhdr_peer_server(mut p: RawPeer) {
    // E = client: answer whatever arrives, then end
    if !p.handshake(&[(S_INITIAL_WINDOW_SIZE, 1 << 20)]).await {
        return;
    }
    p.settle_world(100_000).await;
    let ids: Vec<u32> = p.sh.opened_by_e.clone();
    for t in ids {
        if !p.sh.streams.get(&t).map(|x| x.rst.is_some()).unwrap_or(false) {
            p.respond(t, 200, &[], true).await;
        }
    }
    p.settle_world(100_000).await;
    p.close();
    p.serve_forever().await;
}

async fn sendhdr_peer_client(mut p: RawPeer) {
    // E = server: one plain request with a small body (so that the server may send trailers after a body)
    if !p.handshake(&[(S_INITIAL_WINDOW_SIZE, 1 << 20)]).await {
        return;
    }
    let t = p.alloc_sid();
    p.open_request(t, "POST", "/s", &[f("x-vp-id", "2")], false).await;
    p.send_data_legal(t, 4, 0, 10, true).await;
    p.settle_world(100_000).await;
    let mut b = Vec::new();
    goaway(0, 0, b"", &mut b);
    p.send(&b).await;
    p.settle_world(100_000).await;
    p.close();
    p.serve_forever().await;
}

pub fn run_sendhdr(sc: &SendHdrScenario) -> Outcome {
    sim::install(sc.seed, sc.sched);
    sim::with(|w| {
        w.gone_write_err = (0, 1);
        w.pipes.push(PipeState::new(0, sc.prof[0].clone(), sc.prof[1].clone()));
    });
    let ctl: ConnCtlRef = Default::default();
    let e = if sc.e_server { Side::Server } else { Side::Client };
    let hook = SnapHook::new(e, 65_535);
    let mut spec = plain_spec(2, "POST", vec![10], vec![20]);
    match (sc.e_server, sc.position) {
        (false, "trailers") => spec.req.eos = EosMode::Trailers(sc.fields.clone()),
        (false, _) => spec.req.fields = sc.fields.clone(),
        (true, "trailers") => spec.resp.eos = EosMode::Trailers(sc.fields.clone()),
        (true, "informational") => spec.informational = vec![(103, sc.fields.clone())],
        (true, "push") => {
            let o = GenOpts { focus: Focus::Lifecycle, coop: true, max_streams: 3, max_body: 10, small: true };
            // borrow a generated push spec as a template
            let mut tmpl = None;
            for k in 0..200u64 {
                if let Some(pz) = crate::apps::spec::generate(k, &o).streams.iter().flat_map(|s| s.pushes.iter()).next() {
                    tmpl = Some(pz.clone());
                    break;
                }
            }
            if let Some(mut pz) = tmpl {
                pz.idx = 9;
                pz.req_fields = sc.fields.clone();
                pz.before_response = true;
                spec.pushes = vec![pz];
            }
        }
        (true, _) => spec.resp.fields = sc.fields.clone(),
    }
    if sc.e_server {
        sim::spawn("server-main", TaskKind::Conn, server_main(Ctx { conn: 0, side: Side::Server }, PipeEnd::new(0, Side::Server), EpCfg::default(), vec![spec], ctl.clone(), hook.clone(), None));
        sim::spawn("raw-peer", TaskKind::App, sendhdr_peer_client(RawPeer::new(0, Side::Client)));
    } else {
        sim::spawn("client-app", TaskKind::App, raw_client_app(Ctx { conn: 0, side: Side::Client }, PipeEnd::new(0, Side::Client), EpCfg::default(), vec![spec], ctl.clone(), hook.clone()));
        sim::spawn("raw-peer", TaskKind::App, sendhdr_peer_server(RawPeer::new(0, Side::Server)));
    }
    let end = sim::run(2_000_000);
    let scn = sc.clone();
    finish_raw(end, e, &[&hook], move |view, _viol, stats, notes| {
        stats.inc(&format!("sendhdr.{}.{}", if scn.e_server { "server" } else { "client" }, scn.position));
        stats.inc(if scn.defects.is_empty() { "sendhdr.valid_cases" } else { "sendhdr.defect_cases" });
        // what the API said (evidence; the verdict is the wire oracle's: nothing malformed may leave E)
        for (_ev, a) in mon::apis(view.evs()) {
            if a.side == (if scn.e_server { Side::Server } else { Side::Client }) && a.phase == Phase::Ret && matches!(a.op, Op::SendRequest | Op::SendResponse | Op::SendTrailers | Op::SendInformational | Op::PushRequest) {
                stats.inc(&format!("sendhdr.api.{:?}.{}", a.op, if matches!(a.res, Res::Ok) { "ok" } else { "refused" }));
            }
        }
        stats.inc("nontrivial");
        notes.push(format!("send-side case {:?} fields {:?}", scn.position, scn.fields.iter().map(|(n, v)| format!("{}: {}", n, String::from_utf8_lossy(v))).collect::<Vec<_>>()));
    })
}

#[derive(Debug, Clone)]
pub struct FuzzScenario {
    pub seed: u64,
    pub e_server: bool,
    pub class: &'static str,
    pub input: Vec<u8>,
    pub prof: [sim::DirProfile; 2],
    pub sched: sim::Sched,
    pub cfg: EpCfg,
    pub n_requests: usize,
    pub answer_settings: bool,
}

fn random_fields(rng: &mut Rng, request: bool) -> Vec<Field> {
    let mut v = Vec::new();
    if request {
        v.push(f(":method", *rng.pick(&["GET", "POST", "CONNECT", "HEAD", "", "get", "\u{0}"])));
        if rng.chance(5, 6) {
            v.push(f(":scheme", *rng.pick(&["https", "http", "ftp", ""])));
        }
        if rng.chance(5, 6) {
            v.push(f(":authority", *rng.pick(&["vp.test", "a:b:c", "", "[::1]:80"])));
        }
        if rng.chance(5, 6) {
            v.push(f(":path", *rng.pick(&["/", "*", "", "/a b", "//", "/%zz"])));
        }
    } else if rng.chance(5, 6) {
        v.push(f(":status", *rng.pick(&["200", "100", "99", "1000", "abc", "204", "304"])));
    }
    for i in 0..rng.range(0, 6) {
        let n = match rng.below(8) {
            0 => "content-length".to_string(),
            1 => "te".to_string(),
            2 => "connection".to_string(),
            3 => format!("x-{}", i),
            4 => "X-UP".to_string(),
            5 => ":late".to_string(),
            6 => "cookie".to_string(),
            _ => "x-long".to_string(),
        };
        let val: Vec<u8> = match rng.below(6) {
            0 => b"0".to_vec(),
            1 => b"trailers".to_vec(),
            2 => rng.bytes_upto(40),
            3 => vec![b'a'; rng.usize_below(3000)],
            4 => b"18446744073709551616".to_vec(),
            _ => b"v".to_vec(),
        };
        v.push((n.into_bytes(), val));
    }
    v
}

fn grammar_frames(rng: &mut Rng, enc: &mut crate::wire::hpack_ref::RefEncoder, n: usize, client_role: bool, out: &mut Vec<u8>) {
    let sids = [0u32, 1, 2, 3, 4, 5, 7, 9, 11, 0x7fff_ffff, 0x7fff_fffd];
    for _ in 0..n {
        let sid = *rng.pick(&sids);
        match rng.below(14) {
            0 => {
                let n = *rng.pick(&[0usize, 1, 10, 100, 16_384, 16_385]);
                let pad = if rng.chance(1, 4) { Some(rng.byte()) } else { None };
                data(sid, &vec![0x41; n], rng.chance(1, 3), pad, out);
            }
            1 | 2 => {
                let fields = random_fields(rng, client_role);
                let mut blk = Vec::new();
                for (n, v) in &fields {
                    let c = crate::wire::hpack_ref::EncChoice { repr: rng.below(4) as u8, use_name_index: rng.chance(1, 2), huff_name: rng.chance(1, 2), huff_value: rng.chance(1, 2), int_pad: if rng.chance(1, 10) { 1 } else { 0 } };
                    enc.field(n, v, c, &mut blk);
                }
                let prio = if rng.chance(1, 5) { Some((rng.chance(1, 2), *rng.pick(&sids), rng.byte())) } else { None };
                let pad = if rng.chance(1, 5) { Some(rng.byte()) } else { None };
                let (fm, cm) = if rng.chance(1, 3) { (rng.usize_below(20), 1 + rng.usize_below(50)) } else { (0, 0) };
                headers(sid, &blk, rng.chance(1, 2), pad, prio, fm, cm, out);
            }
            3 if rng.chance(1, 2) => {
                // tiny payloads under flags that announce more structure than there is (pad length, priority
                // fields, promised id): every length subtraction in the frame loaders is reached
                let typ = *rng.pick(&[T_DATA, T_HEADERS, T_HEADERS, T_PUSH_PROMISE]);
                let flags = (if rng.chance(3, 4) { F_PADDED } else { 0 }) | (if rng.chance(1, 2) { F_PRIORITY } else { 0 }) | (if rng.chance(1, 2) { F_END_HEADERS } else { 0 }) | (if rng.chance(1, 3) { F_END_STREAM } else { 0 });
                let mut pl = rng.bytes_upto(13);
                if !pl.is_empty() && rng.chance(2, 3) {
                    pl[0] = rng.below(pl.len() as u64 + 2) as u8;
                }
                raw_frame(typ, flags, sid, &pl, out);
            }
            3 => priority(sid, rng.chance(1, 2), *rng.pick(&sids), rng.byte(), out),
            4 => rst(sid, *rng.pick(&[0u32, 1, 2, 7, 8, 0xffff_ffff]), out),
            5 => {
                let ids = [1u16, 2, 3, 4, 5, 6, 8, 0x99];
                let vals = [0u32, 1, 2, 100, 16_383, 16_384, 65_535, 0x7fff_ffff, 0x8000_0000, 0xffff_ffff];
                let es: Vec<(u16, u32)> = (0..rng.range(0, 5)).map(|_| (*rng.pick(&ids), *rng.pick(&vals))).collect();
                settings(&es, out);
            }
            6 => settings_ack(out),
            7 => {
                let fields = random_fields(rng, true);
                let blk = {
                    let mut b = Vec::new();
                    enc.block(&fields, &mut b);
                    b
                };
                push_promise(sid, *rng.pick(&sids), &blk, None, 0, 0, out);
            }
            8 => ping(rng.chance(1, 3), [rng.byte(); 8], out),
            9 => goaway(*rng.pick(&sids), *rng.pick(&[0u32, 1, 11, 0xdead]), &rng.bytes_upto(40), out),
            10 => window_update(sid, *rng.pick(&[0u32, 1, 100, 65_535, 0x7fff_ffff]), out),
            11 => raw_frame(T_CONTINUATION, rng.byte() & 0x05, sid, &rng.bytes_upto(30), out),
            12 => raw_frame(rng.byte(), rng.byte(), sid, &rng.bytes_upto(60), out),
            _ => {
                // wrong-size fixed-length frames
                let t = *rng.pick(&[T_PING, T_RST, T_WINDOW_UPDATE, T_PRIORITY, T_SETTINGS, T_GOAWAY]);
                raw_frame(t, rng.byte() & 1, sid, &rng.bytes_upto(12), out);
            }
        }
    }
}

/// A server's side of a conversation with an h2 client that has `n_req` requests in flight: mostly legal
/// responses, pushes, pushed responses, resets and trailers, with the deviations that only matter in a
/// particular stream state (a promised id used twice or out of order, a promise on a parent that has ended
/// or was reset, a second response, DATA after END_STREAM, a malformed head that makes the client reset
/// the stream and later frames that refer to it).
fn stateful_server_script(rng: &mut Rng, enc: &mut crate::wire::hpack_ref::RefEncoder, n_req: u32, out: &mut Vec<u8>) {
    let parents: Vec<u32> = (0..n_req.max(1)).map(|i| 1 + 2 * i).collect();
    let mut next_promised = 2u32;
    let mut promised_used: Vec<u32> = Vec::new();
    let steps = rng.range(3, 26);
    for _ in 0..steps {
        let parent = *rng.pick(&parents);
        let any = if !promised_used.is_empty() && rng.chance(1, 2) { *rng.pick(&promised_used) } else { parent };
        match rng.below(13) {
            0 | 1 | 2 => {
                let promised = match rng.below(6) {
                    0 if !promised_used.is_empty() => *rng.pick(&promised_used),
                    1 => next_promised + 2,
                    _ => next_promised,
                };
                if promised >= next_promised {
                    next_promised = promised + 2;
                }
                promised_used.push(promised);
                let mut fields = vec![f(":method", *rng.pick(&["GET", "GET", "HEAD", "POST"])), f(":scheme", "https"), f(":authority", "vp.test"), f(":path", "/pushed")];
                if rng.chance(1, 8) {
                    fields.push(f("connection", "close"));
                }
                let mut blk = Vec::new();
                enc.block(&fields, &mut blk);
                push_promise(parent, promised, &blk, None, 0, 0, out);
            }
            3 | 4 | 5 => {
                // a response head on a request stream or a promised stream
                let mut fields = match rng.below(8) {
                    0 => vec![f("content-type", "text/plain")],
                    1 => vec![f(":status", "200"), f("connection", "close")],
                    2 => vec![f(":status", "200"), f("Upper", "x")],
                    3 => vec![f(":status", "103")],
                    _ => vec![f(":status", *rng.pick(&["200", "204", "404"]))],
                };
                if rng.chance(1, 6) {
                    fields.push(f("content-length", *rng.pick(&["0", "3", "100"])));
                }
                let mut blk = Vec::new();
                enc.block(&fields, &mut blk);
                headers(any, &blk, rng.chance(1, 3), None, None, 0, 0, out);
            }
            6 | 7 => data(any, &vec![0x44; *rng.pick(&[0usize, 3, 100, 1000])], rng.chance(1, 2), None, out),
            8 => rst(any, *rng.pick(&[0u32, 2, 7, 8]), out),
            9 => {
                let mut blk = Vec::new();
                enc.block(&[f("x-trailer", "t")], &mut blk);
                headers(any, &blk, true, None, None, 0, 0, out);
            }
            10 => window_update(if rng.chance(1, 3) { 0 } else { any }, *rng.pick(&[1u32, 1000, 65_535]), out),
            11 => ping(false, [7; 8], out),
            _ => priority(any, false, parent, 16, out),
        }
    }
}

fn legal_transcript(rng: &mut Rng, client_role: bool) -> Vec<u8> {
    let mut enc = crate::wire::hpack_ref::RefEncoder::new(4096);
    let mut b = Vec::new();
    if client_role {
        b.extend_from_slice(PREFACE);
    }
    settings(&[(S_INITIAL_WINDOW_SIZE, 1 << 20), (S_MAX_FRAME_SIZE, 16_384)], &mut b);
    settings_ack(&mut b);
    if client_role {
        for i in 0..rng.range(1, 4) as u32 {
            let sid = 1 + 2 * i;
            let mut blk = Vec::new();
            enc.block(&[f(":method", "POST"), f(":scheme", "https"), f(":authority", "vp.test"), f(":path", "/"), f("x-vp-id", "5"), f("cookie", "a=b")], &mut blk);
            headers(sid, &blk, false, None, None, 0, 0, &mut b);
            data(sid, &vec![0x42; rng.usize_below(400)], false, None, &mut b);
            window_update(sid, 1000, &mut b);
            data(sid, b"end", true, None, &mut b);
        }
    } else {
        for i in 0..rng.range(1, 3) as u32 {
            let sid = 1 + 2 * i;
            let mut blk = Vec::new();
            enc.block(&[f(":status", "200"), f("content-type", "text/plain")], &mut blk);
            headers(sid, &blk, false, None, None, 0, 0, &mut b);
            data(sid, &vec![0x43; rng.usize_below(400)], true, None, &mut b);
        }
    }
    ping(false, [1; 8], &mut b);
    window_update(0, 5000, &mut b);
    b
}

fn mutate(rng: &mut Rng, b: &mut Vec<u8>) {
    for _ in 0..rng.range(1, 6) {
        if b.is_empty() {
            return;
        }
        let i = rng.usize_below(b.len());
        match rng.below(7) {
            0 => b[i] ^= 1 << rng.below(8),
            1 => b[i] = rng.byte(),
            2 => {
                b.truncate(i);
            }
            3 => {
                let j = rng.usize_below(b.len());
                let (lo, hi) = (i.min(j), i.max(j));
                let seg: Vec<u8> = b[lo..hi.min(lo + 200)].to_vec();
                let at = rng.usize_below(b.len());
                for (k, x) in seg.into_iter().enumerate() {
                    b.insert(at + k, x);
                }
            }
            4 => {
                b.insert(i, rng.byte());
            }
            5 => {
                b.remove(i);
            }
            _ => {
                // splice in an extreme length / id
                let v = *rng.pick(&[0xffu8, 0x7f, 0x80, 0x00]);
                for k in 0..4.min(b.len() - i) {
                    b[i + k] = v;
                }
            }
        }
    }
}

pub fn gen_fuzz(seed: u64) -> FuzzScenario {
    let mut rng = Rng::new(seed ^ 0xf022);
    let e_server = rng.chance(1, 2);
    let client_role = e_server; // the peer's role
    let mut class = *rng.pick(&["grammar", "grammar", "mutation", "mutation", "extremes", "random", "stateful", "stateful"]);
    if class == "stateful" && e_server {
        // the server-side counterpart of this class is the catalogue family
        class = "grammar";
    }
    let mut stateful_requests = None;
    let mut input = Vec::new();
    let mut enc = crate::wire::hpack_ref::RefEncoder::new(4096);
    let handshake_first = rng.chance(4, 5);
    if handshake_first {
        if client_role {
            input.extend_from_slice(PREFACE);
        }
        settings(&[(S_INITIAL_WINDOW_SIZE, *rng.pick(&[0u32, 100, 65_535, 1 << 20]))], &mut input);
    }
    match class {
        "grammar" => {
            let n = rng.range(1, 40) as usize;
            grammar_frames(&mut rng, &mut enc, n, client_role, &mut input);
        }
        "stateful" => {
            let n_req = 1 + rng.below(3) as u32;
            stateful_requests = Some(n_req as usize);
            if !handshake_first {
                settings(&[], &mut input);
            }
            stateful_server_script(&mut rng, &mut enc, n_req, &mut input);
            if rng.chance(1, 4) {
                mutate(&mut rng, &mut input);
            }
        }
        "mutation" => {
            let mut t = legal_transcript(&mut rng, client_role);
            mutate(&mut rng, &mut t);
            input = t;
        }
        "extremes" => {
            match rng.below(7) {
                0 => {
                    let es: Vec<(u16, u32)> = (0..600).map(|i| ((i % 9) as u16, 100 + i as u32)).collect();
                    settings(&es, &mut input);
                }
                1 => {
                    for _ in 0..200 {
                        window_update(0, 0x7fff_ffff / 300, &mut input);
                    }
                }
                2 => {
                    let fields: Vec<Field> = (0..400).map(|i| (format!("x-h-{}", i).into_bytes(), vec![b'v'; 40])).collect();
                    let mut blk = Vec::new();
                    let mut all = vec![f(":method", "GET"), f(":scheme", "https"), f(":authority", "a"), f(":path", "/")];
                    if !client_role {
                        all = vec![f(":status", "200")];
                    }
                    all.extend(fields);
                    enc.block(&all, &mut blk);
                    headers(1, &blk, true, None, None, 100, 100, &mut input);
                }
                3 => {
                    data(1, &vec![0; 10], false, Some(255), &mut input);
                    raw_frame(T_DATA, F_PADDED, 1, &[255], &mut input);
                }
                4 => {
                    frame_header(0xff_ffff, T_DATA, 0, 1, &mut input);
                    input.extend(std::iter::repeat(0).take(2000));
                }
                5 => {
                    for i in 0..300u32 {
                        ping(false, [(i % 251) as u8; 8], &mut input);
                    }
                }
                _ => {
                    for _ in 0..30 {
                        raw_frame(0xee, 0xff, 0x7fff_ffff, &rng.bytes(100), &mut input);
                    }
                }
            }
        }
        _ => {
            let n = rng.range(1, 600) as usize;
            input.extend(rng.bytes(n));
        }
    }
    let mut cfg = EpCfg::default();
    if rng.chance(1, 3) {
        cfg.max_header_list_size = Some(*rng.pick(&[100u32, 4000, 16_384]));
    }
    if rng.chance(1, 3) {
        cfg.max_concurrent_streams = Some(*rng.pick(&[0u32, 1, 3]));
    }
    if rng.chance(1, 3) {
        cfg.initial_window_size = Some(*rng.pick(&[0u32, 10, 70_000]));
    }
    FuzzScenario { seed, e_server, class, input, prof: [gen_profile(&mut rng), gen_profile(&mut rng)], sched: gen_sched(&mut rng), cfg, n_requests: { let n = rng.range(0, 3) as usize; stateful_requests.unwrap_or(n) }, answer_settings: rng.chance(2, 3) }
}

async fn fuzz_peer(mut p: RawPeer, sc: FuzzScenario) {
    p.auto_ack_settings = sc.answer_settings;
    // feed the input in pieces, serving E in between so that it is not starved of ACKs / window
    let mut off = 0;
    let mut rng = Rng::new(sc.seed ^ 0x7e57);
    while off < sc.input.len() {
        let n = (1 + rng.usize_below(400)).min(sc.input.len() - off);
        p.send(&sc.input[off..off + n]).await;
        off += n;
        p.pump_now();
        p.settle().await;
        if p.write_failed {
            break;
        }
    }
    p.settle_world(1000).await;
    p.close();
    p.serve_forever().await;
}

pub fn run_fuzz(sc: &FuzzScenario) -> Outcome {
    sim::install(sc.seed, sc.sched);
    sim::with(|w| {
        w.gone_write_err = (1, 3);
        w.pipes.push(PipeState::new(0, sc.prof[0].clone(), sc.prof[1].clone()));
    });
    let ctl: ConnCtlRef = Default::default();
    let e = if sc.e_server { Side::Server } else { Side::Client };
    let hook = SnapHook::new(e, sc.cfg.conn_window());
    if sc.e_server {
        let specs = vec![plain_spec(5, "POST", vec![], vec![3, 700])];
        sim::spawn("server-main", TaskKind::Conn, server_main(Ctx { conn: 0, side: Side::Server }, PipeEnd::new(0, Side::Server), sc.cfg.clone(), specs, ctl.clone(), hook.clone(), None));
        sim::spawn("raw-peer", TaskKind::App, fuzz_peer(RawPeer::new(0, Side::Client), sc.clone()));
    } else {
        let specs: Vec<StreamSpec> = (0..sc.n_requests).map(|i| plain_spec(2 + i as u32, if i == 1 { "HEAD" } else { "POST" }, vec![50, 1000], vec![])).collect();
        sim::spawn("client-app", TaskKind::App, raw_client_app(Ctx { conn: 0, side: Side::Client }, PipeEnd::new(0, Side::Client), sc.cfg.clone(), specs, ctl.clone(), hook.clone()));
        sim::spawn("raw-peer", TaskKind::App, fuzz_peer(RawPeer::new(0, Side::Server), sc.clone()));
    }
    let end = sim::run(3_000_000);
    let input_len = sc.input.len() as u64;
    finish_raw(end, e, &[&hook], |view, viol, stats, notes| {
        stats.inc(&format!("fuzz.class.{}", sc.class));
        stats.add("fuzz.input_bytes", input_len);
        // orderly outcome: after the input ended with EOF the connection future completed
        let mut handshake_ok = false;
        let mut conn_done = None;
        let mut pending_ops: BTreeMap<u32, (Op, u32)> = BTreeMap::new();
        for (_ev, a) in mon::apis(view.evs()) {
            if a.side != e {
                continue;
            }
            if a.op == Op::Handshake && a.phase == Phase::Ret {
                handshake_ok = matches!(a.res, Res::Ok);
            }
            if a.op == Op::ConnDone && a.phase == Phase::Ret {
                conn_done = Some(a.res.clone());
            }
            if a.op_id != 0 && !matches!(a.op, Op::DropSend | Op::DropRecv | Op::DropSendResponse | Op::DropResponseFuture | Op::DropSendRequest) {
                match a.phase {
                    Phase::Call => {
                        pending_ops.insert(a.op_id, (a.op, a.sid));
                    }
                    Phase::Ret => {
                        pending_ops.remove(&a.op_id);
                    }
                }
            }
        }
        let quiescent = end == RunEnd::Quiescent;
        if !quiescent {
            viol.push(Violation::new("C08", "no-quiescence-within-budget", format!("class {} input {} bytes: world still running after 3M steps", sc.class, input_len)));
        } else if !pending_ops.is_empty() {
            // with the transport at EOF every operation must have resolved and the connection future completed
            let kinds: Vec<String> = pending_ops.values().map(|(o, s)| format!("{:?}(sid {})", o, s)).collect();
            viol.push(Violation::new("C08", "operations-hang-after-hostile-input-and-eof", format!("class {} input {} bytes: {:?}", sc.class, input_len, kinds)));
        }
        if let Some(r) = &conn_done {
            stats.inc(&format!("fuzz.outcome.{}", match r { Res::Ok => "ok".to_string(), Res::Err(e) => format!("err{}", e.reason.map(|x| x.to_string()).unwrap_or_else(|| "io".into())), _ => "other".into() }));
        }
        let _ = handshake_ok;
        // bounded work: connection polls per input byte + per application operation
        let polls = view.w.stats.conn_polls;
        let work_units = input_len + view.w.trace.evs.len() as u64 / 4 + 50;
        stats.max("max.conn_polls_per_unit_x1000", polls * 1000 / work_units);
        if polls > 40 * work_units + 2000 {
            viol.push(Violation::new("C08", "unbounded-work-per-input-byte", format!("class {}: {} connection polls for {} input bytes ({} events)", sc.class, polls, input_len, view.w.trace.evs.len())));
        }
        // GOAWAY codes
        let dir = &view.w.pipes[0].dirs[e.wdir()];
        for fr in &dir.frames {
            if let Body::GoAway { code, .. } = fr.body {
                stats.inc(&format!("fuzz.goaway.code{}", code));
            }
        }
        stats.inc("nontrivial");
        notes.push(format!("class {} input {} bytes", sc.class, input_len));
    })
}
