//! C03 window family (raw engine): a scripted client sends legal, randomly padded DATA to an h2 server
//! whose application consumes, holds, partially reads, drops or resets the request bodies, and to streams
//! the server refuses; every flow-controlled byte must come back. Judged by the hook-H2 snapshot invariants
//! around every connection poll, and at the end (everything released, connection still alive) by
//!   * nothing left in flight inside the endpoint,
//!   * the window the endpoint believes it advertised == the window computed from the wire by the peer,
//!   * that window back within h2's update threshold of the configured size.

use super::raw::{f, finish_raw, plain_spec};
use super::rawpeer::RawPeer;
use super::sim::Outcome;
use crate::apps::actors::{pattern, server_main, ConnCtlRef, Ctx};
use crate::apps::spec::{gen_profile, gen_sched, EpCfg, ReadMode, Release, StreamSpec};
use crate::mon::snap::SnapHook;
use crate::mon::Violation;
use crate::rng::Rng;
use crate::sim::pipe::DirProfile;
use crate::sim::{self, PipeEnd, PipeState, Sched, TaskKind};
use crate::trace::Side;
use crate::wire::frame::*;
use std::cell::RefCell;
use std::rc::Rc;

#[derive(Debug, Clone, Copy, PartialEq, Eq)]
pub enum WMode {
    Consume,
    ConsumeLag,
    ConsumeNoRelease,
    Hold,
    ResetByApp,
    DropBody,
    PartialThenDrop,
    /// opened beyond the concurrency limit, DATA sent before the refusal can be seen
    Refused,
    /// the peer resets the stream itself half way
    PeerReset,
}

impl WMode {
    fn vp(self) -> u32 {
        match self {
            WMode::Consume | WMode::Refused | WMode::PeerReset => 5,
            WMode::ConsumeLag => 8,
            WMode::ConsumeNoRelease => 9,
            WMode::Hold => 6,
            WMode::ResetByApp => 7,
            WMode::DropBody => 10,
            WMode::PartialThenDrop => 11,
        }
    }
}

#[derive(Debug, Clone)]
pub struct WStream {
    pub mode: WMode,
    /// (payload length, padding)
    pub frames: Vec<(usize, Option<u8>)>,
}

#[derive(Debug, Clone)]
pub struct WindowScenario {
    pub seed: u64,
    pub cfg: EpCfg,
    pub streams: Vec<WStream>,
    pub sched: Sched,
    pub prof: [DirProfile; 2],
}

pub fn gen_window(seed: u64) -> WindowScenario {
    let mut rng = Rng::new(seed ^ 0x77777);
    let mut cfg = EpCfg::default();
    let mcs = rng.range(3, 6) as u32;
    cfg.max_concurrent_streams = Some(mcs);
    if rng.chance(1, 2) {
        cfg.initial_window_size = Some(rng.range(2_000, 120_000) as u32);
    }
    if rng.chance(1, 2) {
        cfg.initial_connection_window_size = Some(rng.range(65_535, 300_000) as u32);
    }
    cfg.reset_stream_duration_s = *rng.pick(&[None, Some(0), Some(30)]);
    if rng.chance(1, 2) {
        cfg.max_concurrent_reset_streams = Some(rng.range(0, 4) as usize);
    }
    let iws = cfg.stream_window() as usize;
    let cw = cfg.conn_window() as usize;
    let n = rng.range(2, 7) as usize;
    let mut streams = Vec::new();
    let mut held_budget = cw / 3;
    for _ in 0..n {
        let mode = *rng.pick(&[WMode::Consume, WMode::Consume, WMode::ConsumeLag, WMode::ConsumeNoRelease, WMode::Hold, WMode::ResetByApp, WMode::DropBody, WMode::DropBody, WMode::PartialThenDrop, WMode::Refused, WMode::PeerReset]);
        // bytes that may stay un-credited at stream level must fit the stream window; held bytes also the share of the connection window
        let cap = match mode {
            WMode::Consume | WMode::ConsumeLag => 60_000,
            WMode::Hold | WMode::ConsumeNoRelease => {
                let c = (iws / 2).min(held_budget).min(20_000);
                held_budget -= c;
                c
            }
            _ => (iws / 2).min(20_000),
        };
        let mut total = 0usize;
        let mut frames = Vec::new();
        let nf = rng.range(1, 12) as usize;
        for _ in 0..nf {
            let pad = match rng.below(4) {
                0 => None,
                1 => Some(0u8),
                2 => Some(rng.range(1, 255) as u8),
                _ => Some(rng.range(1, 40) as u8),
            };
            let len = match rng.below(5) {
                0 => 0,
                1 => rng.usize_below(20),
                2 => rng.usize_below(2_000),
                _ => rng.usize_below(12_000),
            };
            let flow = len + pad.map(|p| 1 + p as usize).unwrap_or(0);
            if total + flow > cap {
                continue;
            }
            total += flow;
            frames.push((len, pad));
        }
        streams.push(WStream { mode, frames });
    }
    WindowScenario { seed, cfg, streams, sched: gen_sched(&mut rng), prof: [gen_profile(&mut rng), gen_profile(&mut rng)] }
}

impl WindowScenario {
    pub fn to_json(&self) -> serde_json::Value {
        serde_json::json!({
            "seed": self.seed, "family": "window", "cfg": self.cfg.to_json(), "sched": format!("{:?}", self.sched),
            "streams": self.streams.iter().map(|s| serde_json::json!({"mode": format!("{:?}", s.mode), "frames": s.frames.iter().map(|(l, p)| format!("{}+{}", l, p.map(|x| x as i32).unwrap_or(-1))).collect::<Vec<_>>()})).collect::<Vec<_>>(),
            "prof": [format!("{:?}", self.prof[0]), format!("{:?}", self.prof[1])],
        })
    }
}

#[derive(Debug, Clone, Default)]
pub struct WinReport {
    pub completed: bool,
    pub shadow_conn_window: i64,
    pub flow_bytes_sent: u64,
    pub padded_frames: u64,
    pub pad_bytes: u64,
    pub frames_sent: u64,
    pub frames_dropped_for_credit: u64,
    pub by_mode: Vec<(WMode, u64)>,
    pub refused_seen: u64,
    pub e_rsts: u64,
}

struct Live {
    sid: u32,
    mode: WMode,
    frames: Vec<(usize, Option<u8>)>,
    next: usize,
    off: u64,
    ended: bool,
}

async fn window_peer(mut p: RawPeer, sc: WindowScenario, rep: Rc<RefCell<WinReport>>, hook: SnapHook) {
    let mut rng = Rng::new(sc.seed ^ 0x1234);
    if !p.handshake(&[(S_INITIAL_WINDOW_SIZE, 1 << 20)]).await {
        return;
    }
    let mcs = sc.cfg.max_concurrent_streams.unwrap_or(100) as usize;
    let mut live: Vec<Live> = Vec::new();
    // open the streams (Refused ones last, after filling the concurrency limit with placeholders kept open)
    let mut open_now = 0usize;
    let mut order: Vec<usize> = (0..sc.streams.len()).collect();
    order.sort_by_key(|i| sc.streams[*i].mode == WMode::Refused);
    let mut fillers: Vec<u32> = Vec::new();
    for i in order {
        let s = &sc.streams[i];
        if s.mode == WMode::Refused {
            while open_now < mcs {
                let sid = p.alloc_sid();
                p.open_request(sid, "POST", "/fill", &[f("x-vp-id", "6")], false).await;
                fillers.push(sid);
                open_now += 1;
            }
            p.settle_world(300).await;
        } else if open_now >= mcs {
            // no slot left: this stream is not part of the run
            continue;
        }
        let sid = p.alloc_sid();
        p.open_request(sid, "POST", "/w", &[f("x-vp-id", &s.mode.vp().to_string())], false).await;
        if s.mode != WMode::Refused && s.mode != WMode::ResetByApp {
            open_now += 1;
        }
        live.push(Live { sid, mode: s.mode, frames: s.frames.clone(), next: 0, off: 0, ended: false });
        if rng.chance(1, 2) {
            p.pump_now();
            p.settle().await;
        }
    }
    // interleaved DATA
    let mut stuck_rounds = 0;
    loop {
        let cands: Vec<usize> = (0..live.len()).filter(|i| !live[*i].ended && live[*i].next < live[*i].frames.len()).collect();
        if cands.is_empty() || p.write_failed || p.sh.eof_from_e {
            break;
        }
        let i = *rng.pick(&cands);
        let (len, pad) = live[i].frames[live[i].next];
        let sid = live[i].sid;
        let flow = (len + pad.map(|x| 1 + x as usize).unwrap_or(0)) as i64;
        let iws = p.sh.e_iws;
        let sw = *p.sh.stream_window.entry(sid).or_insert(iws);
        let e_reset = p.sh.streams.get(&sid).map(|x| x.rst.is_some()).unwrap_or(false);
        if e_reset && live[i].mode != WMode::Refused && live[i].mode != WMode::ResetByApp {
            // E gave up on the stream and the peer has seen it: a legal peer stops
            live[i].ended = true;
            continue;
        }
        if e_reset && rng.chance(1, 2) {
            live[i].ended = true;
            continue;
        }
        if flow > sw.min(p.sh.conn_window) {
            // wait for credit; give up on the frame when E has nothing more to say
            let before = (p.sh.conn_window, sw);
            p.settle_world(200).await;
            let sw2 = *p.sh.stream_window.get(&sid).unwrap();
            if (p.sh.conn_window, sw2) == before {
                stuck_rounds += 1;
                live[i].next += 1;
                rep.borrow_mut().frames_dropped_for_credit += 1;
                if stuck_rounds > 200 {
                    break;
                }
            }
            continue;
        }
        let payload = pattern(live[i].mode.vp() * 2, live[i].off, len);
        let mut b = Vec::new();
        data(sid, &payload, false, pad, &mut b);
        p.send(&b).await;
        *p.sh.stream_window.get_mut(&sid).unwrap() -= flow;
        p.sh.conn_window -= flow;
        live[i].off += len as u64;
        live[i].next += 1;
        {
            let mut r = rep.borrow_mut();
            r.frames_sent += 1;
            r.flow_bytes_sent += flow as u64;
            if let Some(x) = pad {
                r.padded_frames += 1;
                r.pad_bytes += 1 + x as u64;
            }
            let m = live[i].mode;
            match r.by_mode.iter_mut().find(|e| e.0 == m) {
                Some(e) => e.1 += flow as u64,
                None => r.by_mode.push((m, flow as u64)),
            }
        }
        if live[i].mode == WMode::PeerReset && live[i].next * 2 >= live[i].frames.len() {
            let mut b = Vec::new();
            rst(sid, 8, &mut b);
            p.send(&b).await;
            live[i].ended = true;
        }
        if rng.chance(1, 3) {
            p.pump_now();
            p.settle().await;
        }
    }
    // end every stream that is still open from the peer's side
    for l in live.iter_mut() {
        let e_reset = p.sh.streams.get(&l.sid).map(|x| x.rst.is_some()).unwrap_or(false);
        if !l.ended && !e_reset && !p.write_failed {
            let mut b = Vec::new();
            data(l.sid, &[], true, None, &mut b);
            p.send(&b).await;
            l.ended = true;
        }
    }
    for sid in &fillers {
        let mut b = Vec::new();
        data(*sid, &[], true, None, &mut b);
        p.send(&b).await;
    }
    p.settle_world(300).await;
    sim::open_gate();
    p.settle_world(300).await;
    // a last round trip so that the endpoint's state is sampled after everything the application did
    let mut b = Vec::new();
    ping(false, *b"winfinal", &mut b);
    p.send(&b).await;
    p.until(|s| s.e_pongs.iter().any(|x| x == b"winfinal")).await;
    p.settle_world(300).await;
    {
        let mut r = rep.borrow_mut();
        r.completed = !p.write_failed && !p.sh.eof_from_e && p.sh.e_goaways.is_empty();
        r.shadow_conn_window = p.sh.conn_window;
        r.refused_seen = p.sh.streams.values().filter(|s| s.rst == Some(7)).count() as u64;
        r.e_rsts = p.sh.streams.values().filter(|s| s.rst.is_some()).count() as u64;
    }
    hook.mark_final();
    sim::log(0, crate::trace::EvK::Note("window: final state sampled".into()));
    p.close();
    p.serve_forever().await;
}

fn window_specs() -> Vec<StreamSpec> {
    let mk = |idx: u32| plain_spec(idx, "POST", vec![], vec![3]);
    let consume = mk(5);
    let mut lag = mk(8);
    lag.req_read.release = Release::Lag(3_000);
    let mut norel = mk(9);
    norel.req_read.release = Release::Never;
    let mut hold = mk(6);
    hold.respond_gate = true;
    hold.req_read.mode = ReadMode::AfterGate;
    let mut reset = mk(7);
    reset.server_reset = Some(8);
    let mut dropbody = mk(10);
    dropbody.req_read.mode = ReadMode::StopAfter(0);
    dropbody.respond_gate = true;
    let mut partial = mk(11);
    partial.req_read.mode = ReadMode::StopAfter(1_000);
    partial.respond_gate = true;
    vec![consume, lag, norel, hold, reset, dropbody, partial]
}

pub fn run_window(sc: &WindowScenario) -> Outcome {
    sim::install(sc.seed, sc.sched);
    sim::with(|w| {
        w.gone_write_err = (0, 1);
        w.pipes.push(PipeState::new(0, sc.prof[0].clone(), sc.prof[1].clone()));
    });
    let ctl: ConnCtlRef = Default::default();
    let hook = SnapHook::new(Side::Server, sc.cfg.conn_window());
    hook.force_always();
    let rep: Rc<RefCell<WinReport>> = Default::default();
    sim::spawn("server-main", TaskKind::Conn, server_main(Ctx { conn: 0, side: Side::Server }, PipeEnd::new(0, Side::Server), sc.cfg.clone(), window_specs(), ctl.clone(), hook.clone(), None));
    sim::spawn("raw-peer", TaskKind::App, window_peer(RawPeer::new(0, Side::Client), sc.clone(), rep.clone(), hook.clone()));
    // the judged state is the one sampled before the peer closes: remember it when the note appears
    let end = sim::run(6_000_000);
    let r = rep.borrow().clone();
    let target = sc.cfg.conn_window() as i64;
    let final_snap = hook.0.borrow().at_note.clone();
    let app_tasks_open: Vec<String> = sim::task_summary().into_iter().filter(|t| !t.1 && t.0 != "raw-peer" && t.0 != "server-main").map(|t| t.0).collect();
    finish_raw(end, Side::Server, &[&hook], |_view, viol, stats, notes| {
        stats.add("window.frames_sent", r.frames_sent);
        stats.add("window.flow_bytes_sent", r.flow_bytes_sent);
        stats.add("window.padded_frames", r.padded_frames);
        stats.add("window.pad_bytes", r.pad_bytes);
        stats.add("window.frames_dropped_for_credit", r.frames_dropped_for_credit);
        stats.add("window.refused_streams_seen", r.refused_seen);
        stats.add("window.e_rsts", r.e_rsts);
        for (m, b) in &r.by_mode {
            stats.add(&format!("window.flow_bytes.{:?}", m), *b);
        }
        if !r.completed {
            stats.inc("window.not_completed");
            return;
        }
        let s = match final_snap {
            Some(s) => s,
            None => {
                stats.inc("window.no_final_snapshot");
                return;
            }
        };
        stats.inc("window.final_checks");
        stats.inc("nontrivial");
        notes.push(format!("final: shadow conn window={} E.recv.window={} available={} in_flight={} target={} open app tasks={:?}", r.shadow_conn_window, s.recv.conn_window, s.recv.conn_available, s.recv.in_flight_data, target, app_tasks_open));
        if s.recv.conn_window as i64 != r.shadow_conn_window {
            viol.push(Violation::new("C03", "advertised-connection-window-disagrees-with-wire", format!("the endpoint believes it advertised a connection window of {} but initial + WINDOW_UPDATEs - flow-controlled bytes on the wire = {}", s.recv.conn_window, r.shadow_conn_window)));
        }
        if app_tasks_open.is_empty() {
            if s.recv.in_flight_data != 0 {
                viol.push(Violation::new("C03", "flow-controlled-bytes-never-credited-back", format!("every stream is finished and every handle dropped, yet {} bytes are still accounted as in flight (connection window {} available {} target {}); sent {} flow-controlled bytes, {} of them padding", s.recv.in_flight_data, s.recv.conn_window, s.recv.conn_available, target, r.flow_bytes_sent, r.pad_bytes)));
            }
            // h2's policy: an update is sent once the unadvertised part reaches half the advertised window
            if (r.shadow_conn_window as i64) * 3 < target * 2 - 6 {
                viol.push(Violation::new("C03", "connection-window-not-restored", format!("everything was released, yet the connection window seen by the peer is {} of {} configured", r.shadow_conn_window, target)));
            }
        } else {
            stats.inc("window.app_tasks_still_open");
        }
    })
}
