//! C20 engine: real OS threads. One thread drives the client connection, one the server connection,
//! every stream's client side and every accepted stream's server side run on their own threads, further
//! threads hammer clones of the request handle and the ping handle. The transport is a thread-safe
//! in-memory duplex pipe with PRNG chunking that records every write and read with a sequence number
//! drawn from one relaxed atomic counter (no lock shared with h2, no happens-before edge added by the
//! monitor). After the threads have been joined the wire history is rebuilt and judged by the same wire
//! oracles as in the simulator (C02 C04 C05 C12 C14 C17), the hook-H2 snapshot invariants are evaluated by
//! the connection threads after every poll (C03 C05 C16 C19 books), bodies are position-coded and checked
//! end to end (C01), user pings are checked for exactly-once, and a watchdog turns lack of progress into
//! a stack dump (deadlock => violation, anything else => inconclusive).

use crate::apps::actors::{check_pattern, client_builder, pattern, server_builder};
use crate::apps::spec::EpCfg;
use crate::mon::snap::SnapHook;
use crate::mon::{self, Stats, View, Violation};
use crate::rng::Rng;
use crate::sim::{self, PipeState, Sched};
use crate::trace::{Api, EvK, Op, Phase, Res, Side};
use bytes::Bytes;
use h2::{client, server, Reason, RecvStream, SendStream};
use http::{Request, Response};
use std::future::Future;
use std::io;
use std::pin::Pin;
use std::sync::atomic::{AtomicBool, AtomicU64, Ordering};
use std::sync::{Arc, Condvar, Mutex};
use std::task::{Context, Poll, Wake, Waker};
use std::time::{Duration, Instant};
use tokio::io::{AsyncRead, AsyncWrite, ReadBuf};

// ===================== shared run state =====================

pub struct Shared {
    pub seq: AtomicU64,
    pub abort: AtomicBool,
    pub progress: AtomicU64,
    pub panics: Mutex<Vec<String>>,
    pub api: Mutex<Vec<(u64, Api)>>,
    pub noise: u32,
    pub done: AtomicBool,
    pub watchdog_note: Mutex<Option<(String, String, usize)>>,
}

/// Called by the watchdog thread when it has evidence of a deadlock on library locks: the thread that runs
/// the scenario may itself be stuck, so the callback must publish the result and end the process.
pub type OnDeadlock = Arc<dyn Fn(Violation, String) + Send + Sync>;

impl Shared {
    fn next_seq(&self) -> u64 {
        // Relaxed on purpose: the monitor must not order the threads it observes
        self.seq.fetch_add(1, Ordering::Relaxed)
    }
    fn api(&self, a: Api) {
        let s = self.next_seq();
        self.api.lock().unwrap().push((s, a));
    }
}

fn noise(rng: &mut Rng, sh: &Shared) {
    sh.progress.fetch_add(1, Ordering::Relaxed);
    if sh.noise == 0 {
        return;
    }
    match rng.below(sh.noise as u64 * 4) {
        0 => std::thread::yield_now(),
        1 => {
            for _ in 0..rng.below(200) {
                std::hint::spin_loop();
            }
        }
        2 if !cfg!(miri) => std::thread::sleep(Duration::from_micros(rng.below(80))),
        _ => {}
    }
}

// ===================== block_on =====================

struct Parker {
    m: Mutex<bool>,
    cv: Condvar,
}

impl Wake for Parker {
    fn wake(self: Arc<Self>) {
        self.wake_by_ref()
    }
    fn wake_by_ref(self: &Arc<Self>) {
        *self.m.lock().unwrap() = true;
        self.cv.notify_one();
    }
}

/// Drive a future on the current thread. None = the run was aborted by the watchdog.
pub fn block_on<F: Future>(f: F, sh: &Shared) -> Option<F::Output> {
    let mut f = std::pin::pin!(f);
    let parker = Arc::new(Parker { m: Mutex::new(false), cv: Condvar::new() });
    let waker = Waker::from(parker.clone());
    let mut cx = Context::from_waker(&waker);
    loop {
        if let Poll::Ready(v) = f.as_mut().poll(&mut cx) {
            return Some(v);
        }
        sh.progress.fetch_add(1, Ordering::Relaxed);
        let mut g = parker.m.lock().unwrap();
        while !*g {
            let (g2, _) = parker.cv.wait_timeout(g, Duration::from_millis(50)).unwrap();
            g = g2;
            if sh.abort.load(Ordering::Relaxed) {
                return None;
            }
        }
        *g = false;
    }
}

pub fn poll_fn<T, F: FnMut(&mut Context<'_>) -> Poll<T>>(f: F) -> PollFn<F> {
    PollFn(f)
}
pub struct PollFn<F>(F);
impl<F> Unpin for PollFn<F> {}
impl<T, F: FnMut(&mut Context<'_>) -> Poll<T>> Future for PollFn<F> {
    type Output = T;
    fn poll(mut self: Pin<&mut Self>, cx: &mut Context<'_>) -> Poll<T> {
        (self.0)(cx)
    }
}

// ===================== thread-safe pipe =====================

#[derive(Clone, Copy, Debug)]
pub enum PEv {
    W(usize),
    R(usize),
    Shutdown,
    EofSeen,
}

struct TDir {
    buf: std::collections::VecDeque<u8>,
    log: Vec<u8>,
    events: Vec<(u64, PEv)>,
    closed: bool,
    reader_gone: bool,
    reader_waker: Option<Waker>,
    rng: Rng,
    max_chunk: usize,
    pending_prob: u64,
}

pub struct TPipe {
    dirs: [Mutex<TDir>; 2],
    sh: Arc<Shared>,
}

impl TPipe {
    pub fn new(sh: Arc<Shared>, seed: u64, max_chunk: [usize; 2], pending_prob: u64) -> Arc<TPipe> {
        let mk = |i: usize| {
            Mutex::new(TDir { buf: Default::default(), log: Vec::new(), events: Vec::new(), closed: false, reader_gone: false, reader_waker: None, rng: Rng::new(seed ^ (i as u64 + 1) * 0x9e3779b9), max_chunk: max_chunk[i], pending_prob })
        };
        Arc::new(TPipe { dirs: [mk(0), mk(1)], sh })
    }
}

pub struct TEnd {
    pipe: Arc<TPipe>,
    side: Side,
}

impl TEnd {
    pub fn new(pipe: Arc<TPipe>, side: Side) -> TEnd {
        TEnd { pipe, side }
    }
    fn wd(&self) -> usize {
        self.side.wdir()
    }
}

impl AsyncWrite for TEnd {
    fn poll_write(self: Pin<&mut Self>, cx: &mut Context<'_>, data: &[u8]) -> Poll<io::Result<usize>> {
        let wk;
        let n;
        {
            let mut d = self.pipe.dirs[self.wd()].lock().unwrap();
            if d.reader_gone {
                return Poll::Ready(Err(io::ErrorKind::BrokenPipe.into()));
            }
            if d.closed {
                return Poll::Ready(Err(io::ErrorKind::NotConnected.into()));
            }
            if data.is_empty() {
                return Poll::Ready(Ok(0));
            }
            let pp = d.pending_prob;
            if pp > 0 && d.rng.below(100) < pp {
                // transient back-pressure: ask to be polled again
                cx.waker().wake_by_ref();
                return Poll::Pending;
            }
            let mc = d.max_chunk;
            n = if mc == 0 { data.len() } else { (1 + d.rng.usize_below(mc)).min(data.len()) };
            d.buf.extend(&data[..n]);
            d.log.extend_from_slice(&data[..n]);
            let s = self.pipe.sh.next_seq();
            d.events.push((s, PEv::W(n)));
            wk = d.reader_waker.take();
        }
        if let Some(w) = wk {
            w.wake();
        }
        Poll::Ready(Ok(n))
    }
    fn poll_flush(self: Pin<&mut Self>, _cx: &mut Context<'_>) -> Poll<io::Result<()>> {
        Poll::Ready(Ok(()))
    }
    fn poll_shutdown(self: Pin<&mut Self>, _cx: &mut Context<'_>) -> Poll<io::Result<()>> {
        let wk;
        {
            let mut d = self.pipe.dirs[self.wd()].lock().unwrap();
            if !d.closed {
                d.closed = true;
                let s = self.pipe.sh.next_seq();
                d.events.push((s, PEv::Shutdown));
            }
            wk = d.reader_waker.take();
        }
        if let Some(w) = wk {
            w.wake();
        }
        Poll::Ready(Ok(()))
    }
}

impl AsyncRead for TEnd {
    fn poll_read(self: Pin<&mut Self>, cx: &mut Context<'_>, buf: &mut ReadBuf<'_>) -> Poll<io::Result<()>> {
        let mut d = self.pipe.dirs[1 - self.wd()].lock().unwrap();
        if d.buf.is_empty() {
            if d.closed {
                let s = self.pipe.sh.next_seq();
                d.events.push((s, PEv::EofSeen));
                return Poll::Ready(Ok(()));
            }
            d.reader_waker = Some(cx.waker().clone());
            return Poll::Pending;
        }
        let mc = d.max_chunk;
        let want = buf.remaining().min(d.buf.len());
        let n = if mc == 0 { want } else { (1 + d.rng.usize_below(mc)).min(want) };
        for _ in 0..n {
            let b = d.buf.pop_front().unwrap();
            buf.put_slice(&[b]);
        }
        let s = self.pipe.sh.next_seq();
        d.events.push((s, PEv::R(n)));
        Poll::Ready(Ok(()))
    }
}

impl Drop for TEnd {
    fn drop(&mut self) {
        let mut wk = None;
        if let Ok(mut d) = self.pipe.dirs[self.wd()].lock() {
            d.closed = true;
            wk = d.reader_waker.take();
        }
        if let Ok(mut d) = self.pipe.dirs[1 - self.wd()].lock() {
            d.reader_gone = true;
        }
        if let Some(w) = wk {
            w.wake();
        }
    }
}

// ===================== scenario =====================

#[derive(Debug, Clone)]
pub struct TStream {
    pub idx: u32,
    pub req_body: usize,
    pub req_chunk: usize,
    pub resp_body: usize,
    pub resp_chunk: usize,
    pub reserve: bool,
    /// client gives up after sending this many request bytes (reset with this code), if set
    pub client_reset_at: Option<(usize, u32)>,
    /// client drops all its handles after reading this many response bytes
    pub client_drop_at: Option<usize>,
    /// server resets instead of completing the response after this many response bytes
    pub server_reset_at: Option<(usize, u32)>,
    pub release_lag: usize,
}

#[derive(Debug, Clone)]
pub struct ThreadScenario {
    pub seed: u64,
    pub client: EpCfg,
    pub server: EpCfg,
    pub streams: Vec<TStream>,
    pub pings: u32,
    /// keep one request handle alive until every stream thread has finished, then drop it from the scenario
    /// thread while the connection thread is running (idle-close race)
    pub late_handle_drop: bool,
    pub chaos_threads: u32,
    pub max_chunk: [usize; 2],
    pub pending_prob: u64,
    pub noise: u32,
}

pub fn gen_thread(seed: u64, small: bool) -> ThreadScenario {
    let mut rng = Rng::new(seed ^ 0x7472_6561_64);
    let mut client = EpCfg::default();
    let mut server = EpCfg::default();
    for c in [&mut client, &mut server] {
        if rng.chance(1, 2) {
            c.initial_window_size = Some(*rng.pick(&[1u32, 7, 100, 1000, 16_384, 65_535, 200_000]));
        }
        if rng.chance(1, 3) {
            c.initial_connection_window_size = Some(*rng.pick(&[65_535u32, 70_000, 300_000]));
        }
        if rng.chance(1, 3) {
            c.max_frame_size = Some(*rng.pick(&[16_384u32, 20_000, 65_536]));
        }
        if rng.chance(1, 3) {
            c.max_send_buffer_size = Some(*rng.pick(&[1usize, 100, 4_096, 100_000]));
        }
    }
    if rng.chance(1, 2) {
        server.max_concurrent_streams = Some(rng.range(1, 4) as u32);
    }
    // the small-DATA-frame budget is a documented DoS defence that tiny windows would trip (judged under C18)
    client.data_frame_budget = Some(1 << 40);
    server.data_frame_budget = Some(1 << 40);
    let ns = if small { rng.range(1, 2) } else { rng.range(2, 9) } as usize;
    let cap = if small { 600 } else { 60_000 };
    let mut streams = Vec::new();
    for i in 0..ns {
        let sz = |rng: &mut Rng| match rng.below(5) {
            0 => 0,
            1 => rng.usize_below(50),
            2 => rng.usize_below(3_000).min(cap),
            _ => rng.usize_below(cap),
        };
        let req_body = sz(&mut rng);
        let resp_body = sz(&mut rng);
        let tiny_window = client.initial_window_size.map(|w| w < 100).unwrap_or(false) || server.initial_window_size.map(|w| w < 100).unwrap_or(false);
        let lim = if tiny_window { 400 } else { usize::MAX };
        let (req_body, resp_body) = (req_body.min(lim), resp_body.min(lim));
        streams.push(TStream {
            idx: i as u32 + 1,
            req_body,
            req_chunk: 1 + rng.usize_below(20_000),
            resp_body,
            resp_chunk: 1 + rng.usize_below(20_000),
            reserve: rng.chance(1, 2),
            client_reset_at: if rng.chance(1, 8) { Some((rng.usize_below(req_body + 1), *rng.pick(&[8u32, 2, 0x1234_5678]))) } else { None },
            client_drop_at: if rng.chance(1, 8) { Some(rng.usize_below(resp_body + 1)) } else { None },
            server_reset_at: if rng.chance(1, 8) { Some((rng.usize_below(resp_body + 1), *rng.pick(&[8u32, 11, 0xdead_beef]))) } else { None },
            // a reader that sits on more than half a window without releasing it stalls its sender by design
            release_lag: (*rng.pick(&[0usize, 0, 1_000, 20_000])).min(client.stream_window().min(server.stream_window()) as usize / 2),
        });
    }
    ThreadScenario {
        seed,
        client,
        server,
        streams,
        pings: if small { rng.range(0, 2) as u32 } else { *rng.pick(&[0u32, 1, 3, 20, 200, 600, 3000, 3000]) },
        late_handle_drop: rng.chance(1, 2),
        chaos_threads: if small { rng.range(0, 1) as u32 } else { rng.range(0, 3) as u32 },
        max_chunk: [*rng.pick(&[0usize, 0, 1, 7, 100, 5_000]), *rng.pick(&[0usize, 0, 1, 7, 100, 5_000])],
        pending_prob: *rng.pick(&[0u64, 0, 5, 30]),
        noise: *rng.pick(&[0u32, 1, 2, 4]),
    }
}

impl ThreadScenario {
    pub fn to_json(&self) -> serde_json::Value {
        serde_json::json!({
            "seed": self.seed, "family": "threads", "client": self.client.to_json(), "server": self.server.to_json(),
            "streams": self.streams.iter().map(|s| format!("{:?}", s)).collect::<Vec<_>>(),
            "pings": self.pings, "late_handle_drop": self.late_handle_drop, "chaos_threads": self.chaos_threads, "max_chunk": self.max_chunk, "pending_prob": self.pending_prob, "noise": self.noise,
        })
    }
}

// ===================== per-thread results =====================

#[derive(Debug, Clone, Default)]
pub struct Half {
    pub sent: u64,
    pub sent_complete: bool,
    pub recv: u64,
    pub recv_pattern_ok: bool,
    pub recv_clean_end: bool,
    pub recv_err: Option<String>,
    pub send_err: Option<String>,
    pub gave_up: bool,
}

#[derive(Debug, Clone, Default)]
pub struct StreamOutcome {
    pub idx: u32,
    pub sid: u32,
    pub client: Half,
    pub server: Half,
    pub server_saw: bool,
    pub response_status: Option<u16>,
    pub response_err: Option<String>,
}

fn api_ev(side: Side, op: Op, tag: u32, sid: u32, flag: bool, res: Res) -> Api {
    Api { side, tag, sid, op, phase: Phase::Ret, op_id: 0, a: 0, b: 0, flag, res, msg: None }
}

async fn send_body(mut tx: SendStream<Bytes>, side: Side, tag: u32, body_id: u32, total: usize, chunk: usize, reserve: bool, reset_at: Option<(usize, u32)>, sh: Arc<Shared>, mut rng: Rng, out: &mut Half) {
    let sid = tx.stream_id().as_u32();
    let mut off = 0usize;
    loop {
        noise(&mut rng, &sh);
        if let Some((at, code)) = reset_at {
            if off >= at {
                tx.send_reset(Reason::from(code));
                sh.api(api_ev(side, Op::SendReset, tag, sid, false, Res::Ok));
                out.gave_up = true;
                return;
            }
        }
        let want = chunk.min(total - off);
        let mut n = want;
        if reserve && want > 0 {
            tx.reserve_capacity(want);
            let have = tx.capacity();
            let got = if have > 0 {
                have
            } else {
                match poll_fn(|cx| tx.poll_capacity(cx)).await {
                    Some(Ok(c)) => c,
                    Some(Err(e)) => {
                        out.send_err = Some(e.to_string());
                        return;
                    }
                    None => {
                        out.send_err = Some("poll_capacity: None".into());
                        return;
                    }
                }
            };
            if got == 0 {
                out.send_err = Some("capacity notification of 0".into());
                return;
            }
            n = got.min(want);
        }
        let last = off + n == total;
        let data = pattern(body_id, off as u64, n);
        match tx.send_data(data, last) {
            Ok(()) => {
                if last {
                    sh.api(api_ev(side, Op::SendData, tag, sid, true, Res::Ok));
                }
            }
            Err(e) => {
                out.send_err = Some(e.to_string());
                return;
            }
        }
        off += n;
        out.sent = off as u64;
        if last {
            out.sent_complete = true;
            return;
        }
    }
}

async fn read_body(mut rx: RecvStream, body_id: u32, lag: usize, drop_at: Option<usize>, sh: Arc<Shared>, mut rng: Rng, out: &mut Half) {
    let mut off = 0u64;
    let mut unreleased = 0usize;
    out.recv_pattern_ok = true;
    loop {
        noise(&mut rng, &sh);
        if let Some(at) = drop_at {
            if off as usize >= at {
                out.gave_up = true;
                return;
            }
        }
        match poll_fn(|cx| rx.poll_data(cx)).await {
            Some(Ok(d)) => {
                if !check_pattern(body_id, off, &d) {
                    out.recv_pattern_ok = false;
                }
                off += d.len() as u64;
                out.recv = off;
                unreleased += d.len();
                if unreleased > lag {
                    let _ = rx.flow_control().release_capacity(unreleased);
                    unreleased = 0;
                }
            }
            Some(Err(e)) => {
                out.recv_err = Some(e.to_string());
                return;
            }
            None => {
                match poll_fn(|cx| rx.poll_trailers(cx)).await {
                    Ok(_) => out.recv_clean_end = true,
                    Err(e) => out.recv_err = Some(e.to_string()),
                }
                return;
            }
        }
    }
}

/// Poll two futures to completion on one thread.
async fn join2<A: Future<Output = ()>, B: Future<Output = ()>>(a: A, b: B) {
    let mut a = std::pin::pin!(a);
    let mut b = std::pin::pin!(b);
    let (mut da, mut db) = (false, false);
    poll_fn(|cx| {
        if !da && a.as_mut().poll(cx).is_ready() {
            da = true;
        }
        if !db && b.as_mut().poll(cx).is_ready() {
            db = true;
        }
        if da && db {
            Poll::Ready(())
        } else {
            Poll::Pending
        }
    })
    .await
}

// ===================== the run =====================

pub struct ThreadRun {
    pub violations: Vec<Violation>,
    pub stats: Stats,
    pub notes: Vec<String>,
    pub fp: u64,
    pub inconclusive: Option<String>,
}

struct ConnOut {
    result: Result<(), String>,
    snap_violations: Vec<Violation>,
    snapshots: u64,
    polls: u64,
}

fn client_stream_thread(spec: TStream, mut sr: client::SendRequest<Bytes>, sh: Arc<Shared>, seed: u64) -> StreamOutcome {
    let mut o = StreamOutcome { idx: spec.idx, ..Default::default() };
    let mut rng = Rng::new(seed ^ spec.idx as u64 * 77);
    let sh2 = sh.clone();
    let r = block_on(
        async {
            noise(&mut rng, &sh2);
            if let Err(e) = poll_fn(|cx| sr.poll_ready(cx)).await {
                o.response_err = Some(format!("ready: {}", e));
                return;
            }
            let req = Request::builder().method("POST").uri("https://vp.test/t").header("x-vp-id", spec.idx.to_string()).body(()).unwrap();
            let eos = spec.req_body == 0 && spec.client_reset_at.is_none();
            let (mut fut, tx) = match sr.send_request(req, eos) {
                Ok(x) => x,
                Err(e) => {
                    o.response_err = Some(format!("send_request: {}", e));
                    return;
                }
            };
            o.sid = tx.stream_id().as_u32();
            drop(sr);
            let mut ch = Half::default();
            let body_rng = rng.fork(1);
            let resp_rng = rng.fork(2);
            let send = async {
                if eos {
                    ch.sent_complete = true;
                } else {
                    send_body(tx, Side::Client, spec.idx, spec.idx * 2, spec.req_body, spec.req_chunk, spec.reserve, spec.client_reset_at, sh2.clone(), body_rng, &mut ch).await;
                }
            };
            let mut rh = Half::default();
            let mut status = None;
            let mut rerr = None;
            let recv = async {
                match (&mut fut).await {
                    Ok(resp) => {
                        status = Some(resp.status().as_u16());
                        read_body(resp.into_body(), spec.idx * 2 + 1, spec.release_lag, spec.client_drop_at, sh2.clone(), resp_rng, &mut rh).await;
                    }
                    Err(e) => rerr = Some(e.to_string()),
                }
            };
            join2(send, recv).await;
            o.client = Half { sent: ch.sent, sent_complete: ch.sent_complete, send_err: ch.send_err.clone(), gave_up: ch.gave_up || rh.gave_up, recv: rh.recv, recv_pattern_ok: rh.recv_pattern_ok, recv_clean_end: rh.recv_clean_end, recv_err: rh.recv_err.clone() };
            o.response_status = status;
            o.response_err = rerr;
        },
        &sh,
    );
    if r.is_none() {
        o.response_err = Some("aborted by watchdog".into());
    }
    o
}

fn server_stream_thread(spec: Option<TStream>, req: Request<RecvStream>, mut respond: server::SendResponse<Bytes>, sh: Arc<Shared>, seed: u64) -> StreamOutcome {
    let sid = respond.stream_id().as_u32();
    let idx = spec.as_ref().map(|s| s.idx).unwrap_or(0);
    let mut o = StreamOutcome { idx, sid, server_saw: true, ..Default::default() };
    let spec = match spec {
        Some(s) => s,
        None => return o,
    };
    let mut rng = Rng::new(seed ^ spec.idx as u64 * 131);
    let sh2 = sh.clone();
    let _ = block_on(
        async {
            let body = req.into_body();
            let mut rh = Half::default();
            let mut shalf = Half::default();
            let r1 = rng.fork(1);
            let r2 = rng.fork(2);
            let recv = read_body(body, spec.idx * 2, spec.release_lag, None, sh2.clone(), r1, &mut rh);
            let send = async {
                noise(&mut rng, &sh2);
                let eos = spec.resp_body == 0 && spec.server_reset_at.is_none();
                let resp = Response::builder().status(200).body(()).unwrap();
                match respond.send_response(resp, eos) {
                    Ok(tx) => {
                        if eos {
                            sh2.api(api_ev(Side::Server, Op::SendResponse, spec.idx, sid, true, Res::Ok));
                            shalf.sent_complete = true;
                        } else {
                            send_body(tx, Side::Server, spec.idx, spec.idx * 2 + 1, spec.resp_body, spec.resp_chunk, spec.reserve, spec.server_reset_at, sh2.clone(), r2, &mut shalf).await;
                        }
                    }
                    Err(e) => shalf.send_err = Some(e.to_string()),
                }
            };
            join2(recv, send).await;
            o.server = Half { sent: shalf.sent, sent_complete: shalf.sent_complete, send_err: shalf.send_err.clone(), gave_up: shalf.gave_up, recv: rh.recv, recv_pattern_ok: rh.recv_pattern_ok, recv_clean_end: rh.recv_clean_end, recv_err: rh.recv_err.clone() };
        },
        &sh,
    );
    o
}

/// Drop a handle on the scenario thread; h2's drop code may panic (test-only assertions of the `unstable`
/// feature after a connection error, or a genuine defect): record it like a panic in any other thread.
fn drop_caught<T>(x: T, sh: &Shared) {
    if let Err(p) = std::panic::catch_unwind(std::panic::AssertUnwindSafe(move || drop(x))) {
        let msg = if let Some(s) = p.downcast_ref::<&str>() { s.to_string() } else if let Some(s) = p.downcast_ref::<String>() { s.clone() } else { "?".into() };
        sh.panics.lock().unwrap().push(format!("scenario thread, dropping a handle: {}", msg));
    }
}

fn catch<T: Send + 'static>(name: String, sh: Arc<Shared>, f: impl FnOnce() -> T + Send + 'static) -> std::thread::JoinHandle<Option<T>> {
    std::thread::Builder::new()
        .name(name.clone())
        .spawn(move || match std::panic::catch_unwind(std::panic::AssertUnwindSafe(f)) {
            Ok(v) => Some(v),
            Err(p) => {
                let msg = if let Some(s) = p.downcast_ref::<&str>() { s.to_string() } else if let Some(s) = p.downcast_ref::<String>() { s.clone() } else { "?".into() };
                sh.panics.lock().unwrap().push(format!("thread {}: {}", name, msg));
                None
            }
        })
        .expect("spawn")
}

pub fn run_threads(sc: &ThreadScenario, watchdog_secs: u64, on_deadlock: OnDeadlock) -> ThreadRun {
    let sh = Arc::new(Shared { seq: AtomicU64::new(1), abort: AtomicBool::new(false), progress: AtomicU64::new(0), panics: Mutex::new(Vec::new()), api: Mutex::new(Vec::new()), noise: sc.noise, done: AtomicBool::new(false), watchdog_note: Mutex::new(None) });
    // ---- watchdog: a thread that never touches the library (the scenario thread itself may get stuck on a lock)
    {
        let sh = sh.clone();
        std::thread::Builder::new()
            .name("watchdog".into())
            .spawn(move || {
                let t0 = Instant::now();
                let mut last = (sh.progress.load(Ordering::Relaxed), Instant::now());
                loop {
                    std::thread::sleep(Duration::from_millis(if cfg!(miri) { 20 } else { 50 }));
                    if sh.done.load(Ordering::Relaxed) {
                        return;
                    }
                    let p = sh.progress.load(Ordering::Relaxed);
                    if p != last.0 {
                        last = (p, Instant::now());
                    }
                    if last.1.elapsed() > Duration::from_secs(watchdog_secs) || t0.elapsed() > Duration::from_secs(watchdog_secs * 10) {
                        let dump = dump_stacks();
                        // threads parked inside Mutex::lock on one of h2's own mutexes
                        let mut blocked = 0;
                        let mut cur_blocked = false;
                        for l in dump.lines() {
                            if l.starts_with("Thread") {
                                cur_blocked = false;
                            } else if !cur_blocked && l.contains("Mutex::lock<h2::") {
                                cur_blocked = true;
                                blocked += 1;
                            }
                        }
                        if blocked >= 2 {
                            let v = Violation::new("C20", "deadlock-on-library-locks", format!("no thread made progress for {} s and {} threads are parked inside Mutex::lock on h2's own mutexes; stacks in the replay notes", watchdog_secs, blocked));
                            on_deadlock(v, dump.clone());
                            // (the callback normally ends the process)
                        }
                        *sh.watchdog_note.lock().unwrap() = Some((format!("watchdog: no progress for {} s ({} thread(s) parked on a library lock)", watchdog_secs, blocked), dump, blocked));
                        sh.abort.store(true, Ordering::Relaxed);
                        return;
                    }
                }
            })
            .expect("spawn watchdog");
    }
    let pipe = TPipe::new(sh.clone(), sc.seed, sc.max_chunk, sc.pending_prob);
    let mut violations: Vec<Violation> = Vec::new();
    let mut stats = Stats::default();
    let mut notes = Vec::new();

    // ---- server connection thread (spawns one thread per accepted stream)
    let handler_handles: Arc<Mutex<Vec<std::thread::JoinHandle<Option<StreamOutcome>>>>> = Default::default();
    let server_h = {
        let (sh, pipe, cfg, specs, hh, seed) = (sh.clone(), pipe.clone(), sc.server.clone(), sc.streams.clone(), handler_handles.clone(), sc.seed);
        catch("server-conn".into(), sh.clone(), move || {
            let hook = SnapHook::new(Side::Server, cfg.conn_window());
            hook.force_always();
            let mut polls = 0u64;
            let res = block_on(
                async {
                    let mut conn = server_builder(&cfg).handshake::<_, Bytes>(TEnd::new(pipe, Side::Server)).await.map_err(|e| e.to_string())?;
                    let r: Result<(), h2::Error> = poll_fn(|cx| loop {
                        polls += 1;
                        let r = conn.poll_accept(cx);
                        hook.after(&conn.verif_snapshot());
                        match r {
                            Poll::Pending => return Poll::Pending,
                            Poll::Ready(None) => return Poll::Ready(Ok(())),
                            Poll::Ready(Some(Err(e))) => return Poll::Ready(Err(e)),
                            Poll::Ready(Some(Ok((req, respond)))) => {
                                let idx: u32 = req.headers().get("x-vp-id").and_then(|v| v.to_str().ok()).and_then(|s| s.parse().ok()).unwrap_or(0);
                                let sid = respond.stream_id().as_u32();
                                sh.api(api_ev(Side::Server, Op::Accept, idx, sid, req.body().is_end_stream(), Res::Ok));
                                let spec = specs.iter().find(|s| s.idx == idx).cloned();
                                let sh3 = sh.clone();
                                let h = catch(format!("server-stream-{}", idx), sh.clone(), move || server_stream_thread(spec, req, respond, sh3, seed));
                                hh.lock().unwrap().push(h);
                            }
                        }
                    })
                    .await;
                    r.map_err(|e| e.to_string())
                },
                &sh,
            );
            let st = hook.0.borrow();
            ConnOut { result: res.unwrap_or(Err("aborted by watchdog".into())), snap_violations: st.violations.clone(), snapshots: st.count, polls }
        })
    };

    // ---- client: handshake on the main thread, then the connection moves to its own thread
    let hs = block_on(client_builder(&sc.client).handshake::<_, Bytes>(TEnd::new(pipe.clone(), Side::Client)), &sh);
    let (sr, mut conn) = match hs {
        Some(Ok(x)) => x,
        other => {
            sh.abort.store(true, Ordering::Relaxed);
            return ThreadRun { violations, stats, notes, fp: 0, inconclusive: Some(format!("client handshake did not complete: {:?}", other.map(|r| r.map(|_| ()).map_err(|e| e.to_string())))) };
        }
    };
    let mut ping_pong = conn.ping_pong();
    let client_h = {
        let (sh, cfg) = (sh.clone(), sc.client.clone());
        catch("client-conn".into(), sh.clone(), move || {
            let hook = SnapHook::new(Side::Client, cfg.conn_window());
            hook.force_always();
            let mut polls = 0u64;
            let res = block_on(
                poll_fn(|cx| {
                    polls += 1;
                    let r = Pin::new(&mut conn).poll(cx);
                    hook.after(&conn.verif_snapshot());
                    r
                }),
                &sh,
            );
            let st = hook.0.borrow();
            ConnOut { result: res.map(|r| r.map_err(|e| e.to_string())).unwrap_or(Err("aborted by watchdog".into())), snap_violations: st.violations.clone(), snapshots: st.count, polls }
        })
    };

    // ---- stream threads, chaos threads, ping thread
    let mut stream_hs = Vec::new();
    for s in &sc.streams {
        let (s2, sr2, sh2, seed) = (s.clone(), sr.clone(), sh.clone(), sc.seed);
        stream_hs.push(catch(format!("client-stream-{}", s.idx), sh.clone(), move || client_stream_thread(s2, sr2, sh2, seed)));
    }
    let mut chaos_hs = Vec::new();
    for c in 0..sc.chaos_threads {
        let (sr2, sh2, seed) = (sr.clone(), sh.clone(), sc.seed);
        chaos_hs.push(catch(format!("chaos-{}", c), sh.clone(), move || {
            // clone / poll_ready / drop storms on the request handle
            let mut rng = Rng::new(seed ^ (c as u64 + 1) * 0xc4a05);
            let mut ops = 0u64;
            let mut held: Vec<client::SendRequest<Bytes>> = Vec::new();
            for _ in 0..rng.range(20, 200) {
                noise(&mut rng, &sh2);
                match rng.below(4) {
                    0 => held.push(sr2.clone()),
                    1 => {
                        if !held.is_empty() {
                            let i = rng.usize_below(held.len());
                            held.swap_remove(i);
                        }
                    }
                    2 => {
                        let mut x = sr2.clone();
                        let w = Waker::from(Arc::new(Parker { m: Mutex::new(false), cv: Condvar::new() }));
                        let mut cx = Context::from_waker(&w);
                        let _ = x.poll_ready(&mut cx);
                    }
                    _ => {
                        let _ = sr2.is_extended_connect_protocol_enabled();
                    }
                }
                ops += 1;
            }
            ops
        }));
    }
    let mut late_sr = if sc.late_handle_drop { Some(sr.clone()) } else { None };
    drop_caught(sr, &sh);
    let ping_h = if sc.pings > 0 {
        let pp = ping_pong.take();
        let (sh2, n, seed) = (sh.clone(), sc.pings, sc.seed);
        pp.map(|mut pp| {
            catch("pinger".into(), sh.clone(), move || {
                let mut rng = Rng::new(seed ^ 0x9199);
                let mut ok = 0u32;
                let mut errs = Vec::new();
                // The first poll_pong of each ping is aimed at the instant the PONG arrives (adaptive estimate of
                // the round trip): that is where a check-then-register race in the waiter would lose its wake-up.
                let mut est_ns: f64 = 20_000.0;
                for _ in 0..n {
                    noise(&mut rng, &sh2);
                    match pp.send_ping(h2::Ping::opaque()) {
                        Ok(()) => {
                            // a second ping before the pong must be refused, never lost or doubled
                            if pp.send_ping(h2::Ping::opaque()).is_ok() {
                                errs.push("second send_ping accepted while one was pending".to_string());
                            }
                            if !cfg!(miri) {
                                let d = Duration::from_nanos((est_ns * (0.5 + rng.below(1000) as f64 / 1000.0)) as u64);
                                let t0 = Instant::now();
                                while t0.elapsed() < d {
                                    std::hint::spin_loop();
                                }
                            }
                            let mut polls = 0u32;
                            // (the first poll below is the aimed one, made with the waker the thread really sleeps on)
                            let r = block_on(
                                poll_fn(|cx| {
                                    polls += 1;
                                    pp.poll_pong(cx)
                                }),
                                &sh2,
                            );
                            // steer the estimate towards the arrival time: ready at once = we came late
                            est_ns = if polls <= 1 { (est_ns * 0.93).max(500.0) } else { (est_ns * 1.07).min(5_000_000.0) };
                            match r {
                                Some(Ok(_)) => ok += 1,
                                Some(Err(e)) => {
                                    errs.push(format!("pong: {}", e));
                                    break;
                                }
                                None => break,
                            }
                        }
                        Err(e) => {
                            errs.push(format!("send_ping: {}", e));
                            break;
                        }
                    }
                }
                (ok, errs)
            })
        })
    } else {
        None
    };

    // ---- wait for the threads (the watchdog thread decides about stalls)
    let mut inconclusive = None;
    loop {
        if late_sr.is_some() && stream_hs.iter().all(|h| h.is_finished()) {
            // every stream is done: the last request handle goes away on this thread, concurrently with the
            // connection thread's polling
            if let Some(x) = late_sr.take() {
                drop_caught(x, &sh);
            }
        }
        if client_h.is_finished() && server_h.is_finished() && stream_hs.iter().all(|h| h.is_finished()) {
            break;
        }
        if sh.abort.load(Ordering::Relaxed) {
            std::thread::sleep(Duration::from_millis(400));
            break;
        }
        std::thread::sleep(Duration::from_millis(if cfg!(miri) { 1 } else { 2 }));
    }
    sh.done.store(true, Ordering::Relaxed);
    if let Some(x) = late_sr.take() {
        drop_caught(x, &sh);
    }
    if let Some((why, dump, blocked)) = sh.watchdog_note.lock().unwrap().take() {
        notes.push(format!("{}; stack dump:\n{}", why, dump));
        // Nobody is waiting for a lock, nothing is in flight in the transport, and yet threads sit in their
        // executors for ever: with cooperative programs (every reader reads on and releases, every writer goes
        // on) that is a lost wake-up - "every operation completes" broken under real concurrency.
        let in_flight: usize = (0..2).map(|d| pipe.dirs[d].lock().map(|g| g.buf.len()).unwrap_or(1)).sum();
        if blocked == 0 && in_flight == 0 && !cfg!(miri) {
            let parked: Vec<&str> = dump.lines().filter(|l| l.starts_with("Thread")).filter_map(|l| l.split('"').nth(1)).filter(|n| *n != "watchdog" && *n != "threadrun").collect();
            violations.push(Violation::new("C20", "stall-without-lock-wait-or-bytes-in-flight", format!("no thread made progress for {} s; no thread waits for a lock, the transport is empty in both directions; threads still parked: {:?}", watchdog_secs, parked)));
        } else {
            inconclusive = Some(why);
        }
    }
    let aborted = sh.abort.load(Ordering::Relaxed);
    // ---- collect
    let mut outcomes: Vec<StreamOutcome> = Vec::new();
    let join = |h: std::thread::JoinHandle<Option<StreamOutcome>>| if h.is_finished() || !aborted { h.join().ok().flatten() } else { None };
    for h in stream_hs {
        if let Some(o) = join(h) {
            outcomes.push(o);
        }
    }
    let mut server_outcomes: Vec<StreamOutcome> = Vec::new();
    let conn_outs: Vec<(Side, Option<ConnOut>)> = vec![(Side::Client, if client_h.is_finished() || !aborted { client_h.join().ok().flatten() } else { None }), (Side::Server, if server_h.is_finished() || !aborted { server_h.join().ok().flatten() } else { None })];
    let hs: Vec<_> = std::mem::take(&mut *handler_handles.lock().unwrap());
    for h in hs {
        if h.is_finished() || !aborted {
            if let Ok(Some(o)) = h.join() {
                server_outcomes.push(o);
            }
        }
    }
    for h in chaos_hs {
        if h.is_finished() || !aborted {
            if let Ok(Some(n)) = h.join() {
                stats.add("threads.chaos_ops", n);
            }
        }
    }
    if let Some(h) = ping_h {
        if h.is_finished() || !aborted {
            if let Ok(Some((ok, errs))) = h.join() {
                stats.add("threads.user_pings_completed", ok as u64);
                for e in errs {
                    if e.contains("accepted while one was pending") {
                        violations.push(Violation::new("C20", "user-ping-not-linearizable", e));
                    } else {
                        stats.inc("threads.user_ping_ended_with_connection");
                    }
                }
            }
        }
    }
    // ---- panics, poisoned locks
    for p in sh.panics.lock().unwrap().iter() {
        if p.contains("self.slab.is_empty()") || p.contains("!self.has_streams()") {
            stats.inc("unstable_drop_assertion");
            continue;
        }
        let rule = if p.contains("PoisonError") { "library-lock-poisoned" } else { "panic-in-thread" };
        violations.push(Violation::new("C20", rule, p.clone()));
    }
    for (side, c) in &conn_outs {
        match c {
            Some(c) => {
                violations.extend(c.snap_violations.iter().cloned());
                stats.add("snapshots", c.snapshots);
                stats.add("conn_polls", c.polls);
                stats.inc(&format!("threads.{}.conn_{}", side.name(), if c.result.is_ok() { "ok" } else { "err" }));
                if let Err(e) = &c.result {
                    notes.push(format!("{} connection ended with: {}", side.name(), e));
                }
            }
            None => notes.push(format!("{} connection thread did not return", side.name())),
        }
    }
    // ---- end-to-end fidelity from the per-thread outcomes (C01 under real concurrency)
    for co in outcomes.iter().filter(|_| !aborted) {
        let so = server_outcomes.iter().find(|s| s.idx == co.idx);
        stats.inc("threads.streams");
        if let Some(so) = so {
            let spec = sc.streams.iter().find(|s| s.idx == co.idx).unwrap();
            if !so.server.recv_pattern_ok {
                violations.push(Violation::new("C01", "body-bytes-altered", format!("threads: request body of stream {} failed the position code at the server", co.idx)));
            }
            if !co.client.recv_pattern_ok && co.response_status.is_some() {
                violations.push(Violation::new("C01", "body-bytes-altered", format!("threads: response body of stream {} failed the position code at the client", co.idx)));
            }
            if so.server.recv > co.client.sent {
                violations.push(Violation::new("C01", "delivered-more-than-submitted", format!("threads: stream {} request: server read {} > client submitted {}", co.idx, so.server.recv, co.client.sent)));
            }
            if co.client.recv > so.server.sent {
                violations.push(Violation::new("C01", "delivered-more-than-submitted", format!("threads: stream {} response: client read {} > server submitted {}", co.idx, co.client.recv, so.server.sent)));
            }
            if so.server.recv_clean_end && (so.server.recv != spec.req_body as u64 || !co.client.sent_complete) {
                violations.push(Violation::new("C01", "clean-end-on-incomplete-message", format!("threads: stream {} request: clean end after {} of {} bytes (sender complete: {})", co.idx, so.server.recv, spec.req_body, co.client.sent_complete)));
            }
            if co.client.recv_clean_end && (co.client.recv != spec.resp_body as u64 || !so.server.sent_complete) {
                violations.push(Violation::new("C01", "clean-end-on-incomplete-message", format!("threads: stream {} response: clean end after {} of {} bytes (sender complete: {})", co.idx, co.client.recv, spec.resp_body, so.server.sent_complete)));
            }
            if co.client.send_err.as_deref() == Some("capacity notification of 0") || so.server.send_err.as_deref() == Some("capacity notification of 0") {
                violations.push(Violation::new("C16", "capacity-notification-zero", format!("threads: stream {}", co.idx)));
            }
            let undisturbed = spec.client_reset_at.is_none() && spec.client_drop_at.is_none() && spec.server_reset_at.is_none();
            if undisturbed && conn_outs.iter().all(|(_, c)| c.as_ref().map(|c| c.result.is_ok()).unwrap_or(false)) && !aborted {
                stats.inc("threads.streams_undisturbed");
                if !(so.server.recv_clean_end && co.client.recv_clean_end) {
                    violations.push(Violation::new("C20", "undisturbed-stream-did-not-complete", format!("threads: stream {} (no reset, no drop, both connections ended Ok): request clean={} ({} of {}), response clean={} ({} of {}), errors {:?} {:?} {:?} {:?} {:?}", co.idx, so.server.recv_clean_end, so.server.recv, spec.req_body, co.client.recv_clean_end, co.client.recv, spec.resp_body, co.client.send_err, co.client.recv_err, so.server.send_err, so.server.recv_err, co.response_err)));
                } else {
                    stats.inc("threads.streams_completed_clean");
                }
            }
        } else {
            stats.inc("threads.streams_not_seen_by_server");
        }
    }
    // ---- rebuild the wire history and run the wire oracles
    let mut fp = crate::rng::Fnv::default();
    {
        let mut evs: Vec<(u64, usize, PEv)> = Vec::new();
        let mut logs: [Vec<u8>; 2] = [Vec::new(), Vec::new()];
        for d in 0..2 {
            let g = match pipe.dirs[d].lock() {
                Ok(g) => g,
                Err(p) => p.into_inner(),
            };
            logs[d] = g.log.clone();
            for (s, e) in &g.events {
                evs.push((*s, d, *e));
            }
        }
        let apis = sh.api.lock().unwrap().clone();
        evs.sort_by_key(|e| e.0);
        sim::install(sc.seed, Sched::Fifo);
        sim::with(|w| w.pipes.push(PipeState::new(0, Default::default(), Default::default())));
        let mut woff = [0usize; 2];
        let mut ai = 0;
        let mut sorted_apis = apis;
        sorted_apis.sort_by_key(|a| a.0);
        for (s, d, e) in evs {
            while ai < sorted_apis.len() && sorted_apis[ai].0 < s {
                let a = sorted_apis[ai].1.clone();
                sim::with(|w| {
                    w.trace.push(0, EvK::Api(Box::new(a)));
                });
                ai += 1;
            }
            sim::with(|w| {
                let sim::World { pipes, trace, .. } = w;
                match e {
                    PEv::W(n) => {
                        pipes[0].replay_write(d, &logs[d][woff[d]..woff[d] + n], trace);
                        woff[d] += n;
                    }
                    PEv::R(n) => pipes[0].replay_read(d, n, trace),
                    PEv::Shutdown | PEv::EofSeen => {}
                }
            });
        }
        while ai < sorted_apis.len() {
            let a = sorted_apis[ai].1.clone();
            sim::with(|w| {
                w.trace.push(0, EvK::Api(Box::new(a)));
            });
            ai += 1;
        }
        let limit = sim::events_len();
        let w = sim::uninstall();
        let view = View { w: &w, conn: 0, limit };
        for side in [Side::Client, Side::Server] {
            let out = mon::wire::check_endpoint(&view, side);
            violations.extend(out.violations);
            stats.merge(&out.stats);
            fp.add_u64(out.fp);
        }
        stats.add("bytes_written", (logs[0].len() + logs[1].len()) as u64);
    }
    stats.add("threads.seq_events", sh.seq.load(Ordering::Relaxed));
    stats.inc("threads.executions");
    if !aborted && outcomes.len() == sc.streams.len() {
        stats.inc("nontrivial");
    }
    fp.add_u64(sh.seq.load(Ordering::Relaxed));
    ThreadRun { violations, stats, notes, fp: fp.0, inconclusive }
}

fn dump_stacks() -> String {
    if cfg!(miri) {
        return "(no stack dump under Miri)".into();
    }
    let pid = std::process::id().to_string();
    // gdb stops this process while it works: its output must go to a file, never to a pipe we would have to drain
    let path = std::env::temp_dir().join(format!("vh-stacks-{}.txt", pid));
    let f = match std::fs::File::create(&path) {
        Ok(f) => f,
        Err(e) => return format!("cannot create {:?}: {}", path, e),
    };
    let r = std::process::Command::new("gdb").args(["-p", &pid, "-batch", "-ex", "thread apply all bt 12"]).stdin(std::process::Stdio::null()).stdout(f).stderr(std::process::Stdio::null()).status();
    let out = match r {
        Ok(_) => {
            let s = std::fs::read_to_string(&path).unwrap_or_default();
            s.lines().filter(|l| l.starts_with("Thread") || l.starts_with('#')).map(|l| l.chars().take(220).collect::<String>()).take(300).collect::<Vec<_>>().join("\n")
        }
        Err(e) => format!("gdb unavailable: {}", e),
    };
    let _ = std::fs::remove_file(&path);
    out
}
