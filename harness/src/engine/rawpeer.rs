//! The scripted raw peer: talks bytes to one h2 endpoint E through the pipe,
//! using only the harness's own serializer / parser / HPACK. It keeps a *legal
//! shadow state* driven exclusively by what E has actually written and the peer
//! has read (causality rule), so that it can produce legal prefixes and then
//! emit a catalogue item, a flood, or garbage at a chosen point.

use crate::apps::actors::{poll_fn, yield_n};
use crate::sim;
use crate::trace::{EvK, Side};
use crate::wire::frame::*;
use crate::wire::hpack_ref::{EncChoice, Field, RefEncoder};
use std::collections::BTreeMap;
use std::task::Poll;

#[derive(Debug, Clone, Default)]
pub struct EStream {
    pub headers_blocks: u32,
    pub first_fields: Vec<Field>,
    pub es: bool,
    pub rst: Option<u32>,
    pub data_bytes: u64,
    pub push_promised_by_e: bool,
}

#[derive(Debug, Clone, Default)]
pub struct Shadow {
    /// settings E announced (latest values)
    pub e_iws: i64,
    pub e_mfs: u32,
    pub e_mcs: Option<u32>,
    pub e_push: Option<u32>,
    pub e_settings_frames: u32,
    pub e_acks: u32,
    pub e_pings: Vec<[u8; 8]>,
    pub e_pongs: Vec<[u8; 8]>,
    pub e_goaways: Vec<(u32, u32, Vec<u8>)>,
    /// window the peer may still use towards E (connection)
    pub conn_window: i64,
    /// per stream: window the peer may still use towards E
    pub stream_window: BTreeMap<u32, i64>,
    /// streams on which E sent something
    pub streams: BTreeMap<u32, EStream>,
    /// streams opened by E (HEADERS), in order
    pub opened_by_e: Vec<u32>,
    pub preface_seen: bool,
    pub frames_seen: usize,
    pub e_wu_frames: u32,
    pub eof_from_e: bool,
    pub e_bytes_read: u64,
}

pub struct RawPeer {
    pub pipe: usize,
    /// the peer's own side
    pub side: Side,
    pub sh: Shadow,
    pub enc: RefEncoder,
    pub auto_ack_settings: bool,
    pub auto_pong: bool,
    /// automatically grant E window for data it sends us (stream and connection)
    pub auto_grant: bool,
    pub next_own_sid: u32,
    pub sent_settings: u32,
    pub write_failed: bool,
    pub owed: Vec<Owed>,
    pub withheld: Vec<Owed>,
    pub used_ids: Vec<u32>,
    /// a stream the peer has left open on purpose and must end before closing
    pub open_target: Option<u32>,
}

impl RawPeer {
    pub fn new(pipe: usize, side: Side) -> RawPeer {
        let mut sh = Shadow::default();
        sh.e_iws = 65_535;
        sh.e_mfs = 16_384;
        sh.conn_window = 65_535;
        RawPeer {
            pipe,
            side,
            sh,
            enc: RefEncoder::new(4096),
            auto_ack_settings: true,
            auto_pong: true,
            auto_grant: true,
            next_own_sid: if side == Side::Client { 1 } else { 2 },
            sent_settings: 0,
            write_failed: false,
            owed: Vec::new(),
            withheld: Vec::new(),
            used_ids: Vec::new(),
            open_target: None,
        }
    }

    fn wd(&self) -> usize {
        self.side.wdir()
    }
    fn rd(&self) -> usize {
        1 - self.wd()
    }

    /// Write raw bytes, looping over partial writes and back-pressure.
    pub async fn send(&mut self, bytes: &[u8]) {
        let mut off = 0;
        let (pipe, d) = (self.pipe, self.wd());
        while off < bytes.len() && !self.write_failed {
            let r = poll_fn(|cx| {
                sim::with(|w| {
                    let sim::World { pipes, rng, trace, activity, .. } = w;
                    *activity += 1;
                    pipes[pipe].write(d, &bytes[off..], Some(cx), rng, trace)
                })
            })
            .await;
            match r {
                Ok(0) => {
                    self.write_failed = true;
                }
                Ok(n) => off += n,
                Err(_) => self.write_failed = true,
            }
        }
    }

    /// Read whatever is readable right now (never waits); returns number of new frames.
    pub fn pump_now(&mut self) -> usize {
        let (pipe, d) = (self.pipe, self.rd());
        let mut buf = [0u8; 16 * 1024];
        loop {
            let r = sim::with(|w| {
                let sim::World { pipes, rng, trace, .. } = w;
                pipes[pipe].read(d, &mut buf, None, rng, trace)
            });
            match r {
                Poll::Ready(Ok(0)) => {
                    self.sh.eof_from_e = true;
                    break;
                }
                Poll::Ready(Ok(n)) => {
                    self.sh.e_bytes_read += n as u64;
                    continue;
                }
                Poll::Ready(Err(_)) => {
                    self.sh.eof_from_e = true;
                    break;
                }
                Poll::Pending => break,
            }
        }
        self.absorb()
    }

    /// Wait until at least one more byte (or EOF) arrives from E, then absorb. Returns false on EOF.
    pub async fn pump_wait(&mut self) -> bool {
        let (pipe, d) = (self.pipe, self.rd());
        let mut buf = [0u8; 16 * 1024];
        let r = poll_fn(|cx| {
            sim::with(|w| {
                let sim::World { pipes, rng, trace, .. } = w;
                pipes[pipe].read(d, &mut buf, Some(cx), rng, trace)
            })
        })
        .await;
        match r {
            Ok(0) | Err(_) => {
                self.sh.eof_from_e = true;
                self.absorb();
                false
            }
            Ok(n) => {
                self.sh.e_bytes_read += n as u64;
                self.pump_now();
                true
            }
        }
    }

    /// Update the shadow state from frames of E that were completely read; returns the replies owed.
    fn absorb(&mut self) -> usize {
        let (pipe, d) = (self.pipe, self.rd());
        let new: Vec<Frame> = sim::with(|w| {
            let dir = &w.pipes[pipe].dirs[d];
            let mut v = Vec::new();
            let mut i = self.sh.frames_seen;
            while i < dir.frames.len() && dir.t_read[i] != 0 {
                v.push(dir.frames[i].clone());
                i += 1;
            }
            if d == 0 {
                self.sh.preface_seen = dir.parser.raw.preface_ok == Some(true);
            }
            v
        });
        let n = new.len();
        self.sh.frames_seen += n;
        for f in new {
            match &f.body {
                Body::Settings { ack: false, entries } => {
                    self.sh.e_settings_frames += 1;
                    for (id, v) in entries {
                        match *id {
                            S_INITIAL_WINDOW_SIZE => {
                                let delta = *v as i64 - self.sh.e_iws;
                                for w in self.sh.stream_window.values_mut() {
                                    *w += delta;
                                }
                                self.sh.e_iws = *v as i64;
                            }
                            S_MAX_FRAME_SIZE => self.sh.e_mfs = *v,
                            S_MAX_CONCURRENT_STREAMS => self.sh.e_mcs = Some(*v),
                            S_ENABLE_PUSH => self.sh.e_push = Some(*v),
                            _ => {}
                        }
                    }
                    self.owed.push(Owed::SettingsAck);
                }
                Body::Settings { ack: true, .. } => self.sh.e_acks += 1,
                Body::Ping { ack: false, payload } => {
                    self.sh.e_pings.push(*payload);
                    self.owed.push(Owed::Pong(*payload));
                }
                Body::Ping { ack: true, payload } => self.sh.e_pongs.push(*payload),
                Body::GoAway { last, code, debug } => self.sh.e_goaways.push((*last, *code, debug.clone())),
                Body::WindowUpdate { inc } => {
                    self.sh.e_wu_frames += 1;
                    if f.sid == 0 {
                        self.sh.conn_window += *inc as i64;
                    } else {
                        let iws = self.sh.e_iws;
                        *self.sh.stream_window.entry(f.sid).or_insert(iws) += *inc as i64;
                    }
                }
                Body::Headers { block, .. } => {
                    let st = self.sh.streams.entry(f.sid).or_default();
                    if st.headers_blocks == 0 {
                        st.first_fields = block.fields.clone();
                        self.sh.opened_by_e.push(f.sid);
                    }
                    st.headers_blocks += 1;
                    if f.end_stream() {
                        st.es = true;
                    }
                }
                Body::PushPromise { promised, block, .. } => {
                    let st = self.sh.streams.entry(*promised).or_default();
                    st.push_promised_by_e = true;
                    st.first_fields = block.fields.clone();
                }
                Body::Data { flow_len, .. } => {
                    let st = self.sh.streams.entry(f.sid).or_default();
                    st.data_bytes += *flow_len as u64;
                    if f.end_stream() {
                        st.es = true;
                    }
                    if *flow_len > 0 {
                        self.owed.push(Owed::Grant(f.sid, *flow_len, f.end_stream()));
                    }
                }
                Body::Rst { code } => {
                    self.sh.streams.entry(f.sid).or_default().rst = Some(*code);
                }
                _ => {}
            }
        }
        n
    }
}

#[derive(Debug, Clone)]
pub enum Owed {
    SettingsAck,
    Pong([u8; 8]),
    Grant(u32, u32, bool),
}

impl RawPeer {
    pub fn settle_bytes(&mut self) -> Vec<u8> {
        let mut out = Vec::new();
        let owed = std::mem::take(&mut self.owed);
        for o in owed {
            match o {
                Owed::SettingsAck => {
                    if self.auto_ack_settings {
                        settings_ack(&mut out);
                    } else {
                        self.withheld.push(Owed::SettingsAck);
                    }
                }
                Owed::Pong(p) => {
                    if self.auto_pong {
                        ping(true, p, &mut out);
                    } else {
                        self.withheld.push(Owed::Pong(p));
                    }
                }
                Owed::Grant(sid, n, es) => {
                    if self.auto_grant {
                        window_update(0, n, &mut out);
                        if !es {
                            window_update(sid, n, &mut out);
                        }
                    } else {
                        self.withheld.push(Owed::Grant(sid, n, es));
                    }
                }
            }
        }
        out
    }

    /// Send every reply owed (acks, pongs, grants) according to the auto flags.
    pub async fn settle(&mut self) {
        let b = self.settle_bytes();
        if !b.is_empty() {
            self.send(&b).await;
        }
    }

    /// Release everything that was withheld (cooperative epilogue).
    pub async fn release_withheld(&mut self) {
        let w = std::mem::take(&mut self.withheld);
        let mut out = Vec::new();
        for o in w {
            match o {
                Owed::SettingsAck => settings_ack(&mut out),
                Owed::Pong(p) => ping(true, p, &mut out),
                Owed::Grant(sid, n, es) => {
                    window_update(0, n, &mut out);
                    if !es {
                        window_update(sid, n, &mut out);
                    }
                }
            }
        }
        if !out.is_empty() {
            self.send(&out).await;
        }
    }

    /// Pump (waiting) and settle until `done(&shadow)` holds or E's side reached EOF.
    /// Waiting ends with the world: if E never produces what is awaited the task stays parked.
    pub async fn until(&mut self, mut done: impl FnMut(&Shadow) -> bool) -> bool {
        loop {
            self.pump_now();
            self.settle().await;
            if done(&self.sh) {
                return true;
            }
            if self.sh.eof_from_e {
                return false;
            }
            if !self.pump_wait().await {
                self.settle().await;
                return done(&self.sh);
            }
        }
    }

    /// Let the world run for a while (n scheduling slots), serving E's frames meanwhile.
    pub async fn serve_for(&mut self, n: u32) {
        for _ in 0..n {
            self.pump_now();
            self.settle().await;
            yield_n(1).await;
        }
    }

    /// Serve E's frames until the rest of the world has nothing left to do (E has fully reacted to
    /// everything sent so far), bounded by `max` scheduling slots.
    pub async fn settle_world(&mut self, max: u32) {
        // Park until nothing else in the world can run (E has reacted to everything and is waiting for
        // input), serving E's frames each time; repeat while serving produced new work.
        for _ in 0..max.min(1000) {
            self.pump_now();
            let before = self.sh.frames_seen;
            self.settle().await;
            let mut armed = false;
            poll_fn(|cx| sim::poll_world_idle(cx, &mut armed)).await;
            self.pump_now();
            if self.sh.frames_seen == before && self.owed.is_empty() {
                return;
            }
        }
    }

    /// Serve until E's direction is at EOF (parks with the world otherwise).
    pub async fn serve_forever(&mut self) {
        loop {
            self.pump_now();
            self.settle().await;
            if self.sh.eof_from_e {
                return;
            }
            if !self.pump_wait().await {
                return;
            }
        }
    }

    pub async fn handshake(&mut self, my_settings: &[(u16, u32)]) -> bool {
        let mut b = Vec::new();
        if self.side == Side::Client {
            b.extend_from_slice(PREFACE);
        }
        settings(my_settings, &mut b);
        self.sent_settings += 1;
        self.send(&b).await;
        let ok = self.until(|s| s.e_settings_frames >= 1).await;
        sim::log(self.pipe as u8, EvK::Note(format!("rawpeer: handshake done ok={}", ok)));
        ok
    }

    pub fn encode_block(&mut self, fields: &[Field]) -> Vec<u8> {
        let mut b = Vec::new();
        for (n, v) in fields {
            self.enc.field(n, v, EncChoice::default(), &mut b);
        }
        b
    }

    /// Open a stream as a client-role peer with a well-formed request.
    pub async fn open_request(&mut self, sid: u32, method: &str, path: &str, extra: &[Field], eos: bool) {
        let mut fields: Vec<Field> = vec![
            (b":method".to_vec(), method.as_bytes().to_vec()),
            (b":scheme".to_vec(), b"https".to_vec()),
            (b":authority".to_vec(), b"vp.test".to_vec()),
            (b":path".to_vec(), path.as_bytes().to_vec()),
        ];
        fields.extend_from_slice(extra);
        let block = self.encode_block(&fields);
        let mut b = Vec::new();
        headers(sid, &block, eos, None, None, 0, 0, &mut b);
        let iws = self.sh.e_iws;
        self.sh.stream_window.entry(sid).or_insert(iws);
        self.send(&b).await;
    }

    pub async fn respond(&mut self, sid: u32, status: u16, extra: &[Field], eos: bool) {
        let mut fields: Vec<Field> = vec![(b":status".to_vec(), status.to_string().into_bytes())];
        fields.extend_from_slice(extra);
        let block = self.encode_block(&fields);
        let mut b = Vec::new();
        headers(sid, &block, eos, None, None, 0, 0, &mut b);
        let iws = self.sh.e_iws;
        self.sh.stream_window.entry(sid).or_insert(iws);
        self.send(&b).await;
    }

    /// Send `len` bytes of position-coded DATA on `sid` (body id `body_id`, starting at `off`),
    /// split to E's max frame size, legal with respect to E's windows: waits for credit.
    /// Returns the number of bytes actually sent (less if E went away).
    pub async fn send_data_legal(&mut self, sid: u32, body_id: u32, off: u64, len: usize, eos: bool) -> usize {
        let mut sent = 0usize;
        loop {
            let remaining = len - sent;
            let iws = self.sh.e_iws;
            let sw = *self.sh.stream_window.entry(sid).or_insert(iws);
            let room = sw.min(self.sh.conn_window).max(0) as usize;
            let n = remaining.min(room).min(self.sh.e_mfs as usize);
            if remaining == 0 || n > 0 {
                let last = n == remaining;
                let payload = crate::apps::actors::pattern(body_id, off + sent as u64, n);
                let mut b = Vec::new();
                data(sid, &payload, eos && last, None, &mut b);
                self.send(&b).await;
                *self.sh.stream_window.get_mut(&sid).unwrap() -= n as i64;
                self.sh.conn_window -= n as i64;
                sent += n;
                if last {
                    return sent;
                }
                self.pump_now();
                self.settle().await;
                continue;
            }
            // wait for credit
            if self.sh.streams.get(&sid).map(|s| s.rst.is_some()).unwrap_or(false) || !self.sh.e_goaways.is_empty() && self.sh.e_goaways.iter().any(|g| g.1 != 0) {
                return sent;
            }
            if !self.pump_wait().await {
                return sent;
            }
            self.settle().await;
        }
    }
}
