pub mod codec;
pub mod raw;
pub mod rawpeer;
pub mod sim;
