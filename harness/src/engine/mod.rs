pub mod sim;
