pub mod codec;
pub mod flood;
pub mod raw;
pub mod rawpeer;
pub mod shutdown;
pub mod sim;
pub mod threaded;
pub mod window;
