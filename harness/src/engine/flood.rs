//! C18 flood family: a scripted raw peer pushes one kind of frame past a configured limit of the
//! h2 endpoint E (either role), at length n and again at 8n, while hook H2 snapshots taken around
//! every connection poll are compared with reference bounds computed from E's configuration only.
//!
//! Decided here: the number of stream records the application holds no handle to, the number of
//! buffered receive events and the number of queued send frames never exceed the bound, and while
//! E's own writes are blocked the bytes it consumes from the transport stay bounded when every
//! consumed frame obliges it to reply.

use super::raw::{f, finish_raw, plain_spec, raw_client_app};
use super::rawpeer::RawPeer;
use super::sim::Outcome;
use crate::apps::actors::{server_main, ConnCtlRef, Ctx};
use crate::apps::spec::{gen_profile, gen_sched, EpCfg, ReadMode, RespondWhen, StreamSpec};
use crate::mon::snap::{C18Bounds, SnapHook};
use crate::mon::{Stats, Violation};
use crate::rng::Rng;
use crate::sim::pipe::{Chunk, DirProfile};
use crate::sim::{self, PipeEnd, PipeState, Sched, TaskKind};
use crate::mon;
use crate::trace::{EvK, Op, Phase, Res, Side};
use crate::wire::frame::*;
use crate::wire::hpack_ref::Field;
use std::cell::RefCell;
use std::rc::Rc;

#[derive(Debug, Clone, Copy, PartialEq, Eq)]
pub enum AppMode {
    /// accept / poll everything and answer at once
    Fast,
    /// accept, but neither read nor answer before the end of the flood
    Hold,
    /// server: never call accept (poll_closed only). client: never look at responses / pushes
    Ignore,
    /// server: accept only the first few streams
    AcceptFew(usize),
}

#[derive(Debug, Clone)]
pub struct FloodScenario {
    pub seed: u64,
    pub e_server: bool,
    pub kind: &'static str,
    pub variant: u32,
    pub n: usize,
    pub cfg: EpCfg,
    pub app: AppMode,
    pub client_polls_push: bool,
    pub block_writes: bool,
    /// the peer never grants E any send window (legal, and hostile)
    pub withhold_window: bool,
    /// the peer never acknowledges E's SETTINGS (legal for a long time, and hostile)
    pub withhold_settings_ack: bool,
    /// padding of the DATA frames of the tiny-data kind
    pub data_pad: Option<u8>,
    /// tiny-data towards a server: every other flood item is a side stream whose small final DATA
    /// frame (END_STREAM, never charged to the budget) is dropped unread by a handler that resets it
    pub side_final: bool,
    pub pace: usize,
    pub sched: Sched,
    pub prof: [DirProfile; 2],
}

pub const SERVER_KINDS: &[&str] = &[
    "open-rst", "open-wait-rst", "open-only", "open-es", "continuation", "big-headers", "tiny-data", "empty-data", "ping", "settings", "window-update", "priority", "data-on-closed", "rst-closed", "unknown", "frames-on-reset",
];
pub const CLIENT_KINDS: &[&str] = &["push-promise", "push-rst", "push-complete", "push-open", "interim", "tiny-data", "empty-data", "ping", "settings", "window-update", "priority", "unknown", "rst-closed"];

fn tiny(p: &DirProfile) -> bool {
    matches!(p.write_max, Chunk::Fixed(n) if n < 8) || matches!(p.deliver, Chunk::Fixed(n) if n < 8) || matches!(p.read_max, Chunk::Fixed(n) if n < 8) || matches!(p.deliver, Chunk::Uniform(_, hi) if hi < 32) || matches!(p.write_max, Chunk::Uniform(_, hi) if hi < 64)
}

pub fn gen_flood(seed: u64) -> FloodScenario {
    gen_flood_kinds(seed, &[])
}

/// `only`: restrict the flood kinds ("server:open-only", "client:push-open", ...); empty = all.
pub fn gen_flood_kinds(seed: u64, only: &[String]) -> FloodScenario {
    let mut rng = Rng::new(seed ^ 0xf100d);
    let mut e_server = rng.chance(3, 5);
    let mut kind = if e_server { *rng.pick(SERVER_KINDS) } else { *rng.pick(CLIENT_KINDS) };
    if !only.is_empty() {
        let all: Vec<(bool, &'static str)> = SERVER_KINDS.iter().map(|k| (true, *k)).chain(CLIENT_KINDS.iter().map(|k| (false, *k))).filter(|(srv, k)| only.iter().any(|o| o == &format!("{}:{}", if *srv { "server" } else { "client" }, k))).collect();
        assert!(!all.is_empty(), "no flood kind matches {:?}", only);
        let c = *rng.pick(&all);
        e_server = c.0;
        kind = c.1;
    }
    let variant = rng.below(4) as u32;
    let mut cfg = EpCfg::default();
    cfg.max_concurrent_streams = Some(rng.range(1, 8) as u32);
    cfg.max_concurrent_reset_streams = Some(rng.range(0, 10) as usize);
    cfg.reset_stream_duration_s = *rng.pick(&[None, Some(0), Some(30)]);
    cfg.max_pending_accept_reset_streams = Some(rng.range(1, 20) as usize);
    if rng.chance(2, 3) {
        cfg.max_local_error_reset_streams = Some(Some(rng.range(3, 60) as usize));
    }
    if rng.chance(1, 2) {
        cfg.data_frame_budget = Some(rng.range(1_000, 30_000) as usize);
    }
    cfg.max_header_list_size = Some(rng.range(1_000, 20_000) as u32);
    if rng.chance(1, 3) {
        cfg.initial_window_size = Some(rng.range(1_000, 200_000) as u32);
    }
    if rng.chance(1, 3) {
        cfg.initial_connection_window_size = Some(rng.range(65_535, 400_000) as u32);
    }
    let app = match rng.below(5) {
        0 | 1 => AppMode::Fast,
        2 => AppMode::Hold,
        3 => AppMode::Ignore,
        _ => AppMode::AcceptFew(rng.range(1, 4) as usize),
    };
    let prof = [gen_profile(&mut rng), gen_profile(&mut rng)];
    let mut n = rng.range(30, 260) as usize;
    if tiny(&prof[0]) || tiny(&prof[1]) {
        n = n.min(60);
    }
    let blockable = matches!(kind, "ping" | "settings" | "open-only" | "open-rst" | "open-wait-rst" | "push-open" | "data-on-closed" | "frames-on-reset" | "rst-closed" | "push-rst" | "push-complete");
    let mut sc = FloodScenario {
        seed,
        e_server,
        kind,
        variant,
        n,
        cfg,
        app,
        client_polls_push: rng.chance(1, 2),
        block_writes: blockable && rng.chance(2, 5),
        withhold_window: rng.chance(1, 3),
        withhold_settings_ack: matches!(kind, "continuation" | "big-headers" | "tiny-data" | "empty-data" | "open-rst") && rng.chance(1, 3),
        data_pad: match rng.below(3) {
            0 => Some(255),
            1 => Some(rng.below(20) as u8),
            _ => None,
        },
        side_final: false,
        pace: *rng.pick(&[0usize, 0, 1, 4, 25]),
        sched: gen_sched(&mut rng),
        prof,
    };
    // drawn last, so that every other scenario of a seed is what it was before this variant existed
    if sc.e_server && sc.kind == "tiny-data" && rng.chance(1, 2) {
        sc.side_final = true;
        sc.app = AppMode::Hold;
        sc.cfg.max_concurrent_streams = Some(sc.cfg.max_concurrent_streams.unwrap_or(8).max(3));
        if sc.pace == 0 || sc.pace > 4 {
            sc.pace = *rng.pick(&[1usize, 2, 4]);
        }
    }
    sc
}

impl FloodScenario {
    pub fn to_json(&self) -> serde_json::Value {
        serde_json::json!({
            "seed": self.seed, "family": "flood", "e": if self.e_server { "server" } else { "client" }, "kind": self.kind, "variant": self.variant,
            "n": self.n, "cfg": self.cfg.to_json(), "lers": format!("{:?}", self.cfg.max_local_error_reset_streams), "budget": self.cfg.data_frame_budget,
            "app": format!("{:?}", self.app), "polls_push": self.client_polls_push, "block_writes": self.block_writes, "withhold_window": self.withhold_window, "withhold_settings_ack": self.withhold_settings_ack, "data_pad": self.data_pad, "side_final": self.side_final, "pace": self.pace,
            "sched": format!("{:?}", self.sched), "prof": [format!("{:?}", self.prof[0]), format!("{:?}", self.prof[1])],
        })
    }

    /// Reference bounds, from the documented configuration knobs only.
    pub fn bounds(&self) -> C18Bounds {
        let c = &self.cfg;
        let mcs = c.max_concurrent_streams.unwrap_or(0) as usize;
        let reset_max = c.max_concurrent_reset_streams.unwrap_or(50);
        let par = c.max_pending_accept_reset_streams.unwrap_or(20);
        let lers = match c.max_local_error_reset_streams {
            Some(Some(n)) => n,
            _ => 1024,
        };
        let budget = c.data_frame_budget.unwrap_or(25_600);
        let records = mcs + reset_max + par + 2;
        let cw = c.conn_window() as usize;
        C18Bounds { unheld_records: records, recv_events: 3 * records + 8, data_events: cw / 256 + budget + 100, send_frames: lers + 2 * records + 8 }
    }
}

#[derive(Debug, Clone, Default)]
pub struct FloodReport {
    pub items_sent: usize,
    pub bytes_sent: u64,
    pub stopped_early: &'static str,
    pub e_read_at_block: u64,
    pub e_read_after_flood: u64,
    pub sent_at_block: u64,
    pub sent_after_flood: u64,
    pub goaway_codes: Vec<u32>,
    pub rst_codes: Vec<u32>,
    pub prelude_ok: bool,
    pub small_frame_overhead: u64,
    pub side_streams: u64,
    pub target_rst_after_flood: Option<u32>,
    /// streams the peer opened, and those of them E answered with RST_STREAM, as seen at the very end
    pub opened_ids: Vec<u32>,
    pub rst_ids: Vec<u32>,
    pub ended_ids: Vec<u32>,
    pub closed_by_e: bool,
    pub big_list_size: usize,
}

struct FloodState {
    side_streams: u64,
    big_list_size: usize,
    small_frame_overhead: u64,
    target: u32,
    parent: u32,
    next_promised: u32,
    cyc: usize,
    done: bool,
}

fn request_fields(vp: u32, method: &str, i: usize) -> Vec<Field> {
    vec![f(":method", method), f(":scheme", "https"), f(":authority", "vp.test"), f(":path", &format!("/f{}", i)), f("x-vp-id", &vp.to_string())]
}

fn e_read_total(p: &RawPeer) -> u64 {
    let (pipe, d) = (p.pipe, p.side.wdir());
    sim::with(|w| w.pipes[pipe].dirs[d].read)
}

const LIT: &[u8] = &[0x00, 0x01, b'a', 0x01, b'b'];

/// One flood item. Returns false when the flood cannot (or need not) continue.
fn flood_item(p: &mut RawPeer, sc: &FloodScenario, st: &mut FloodState, i: usize, len: usize, rng: &mut Rng, out: &mut Vec<u8>) -> bool {
    let vp = match sc.app {
        AppMode::Hold => 6,
        _ => 5,
    };
    match sc.kind {
        "open-rst" | "open-wait-rst" | "open-only" | "open-es" => {
            let sid = p.alloc_sid();
            st.target = sid;
            if sid > 0x7fff_fff0 {
                return false;
            }
            let es = match sc.kind {
                "open-es" => true,
                "open-wait-rst" => sc.variant % 2 == 0,
                "open-only" => false,
                _ => match sc.variant {
                    0 => false,
                    1 => true,
                    _ => rng.chance(1, 2),
                },
            };
            let block = p.encode_block(&request_fields(vp, if es { "GET" } else { "POST" }, i));
            headers(sid, &block, es, None, None, 0, 0, out);
            if sc.kind == "open-rst" {
                rst(sid, if sc.variant == 3 { rng.below(20) as u32 } else { 8 }, out);
            }
            true
        }
        "continuation" => {
            if i == 0 {
                let sid = p.alloc_sid();
                st.target = sid;
                let block = p.encode_block(&request_fields(vp, "GET", i));
                raw_frame(T_HEADERS, F_END_STREAM, sid, &block, out);
            }
            match sc.variant {
                0 => raw_frame(T_CONTINUATION, 0, st.target, &[], out),
                1 => {
                    raw_frame(T_CONTINUATION, 0, st.target, &LIT[st.cyc..st.cyc + 1], out);
                    st.cyc = (st.cyc + 1) % LIT.len();
                }
                _ => {
                    let name = format!("x-c{}", i);
                    let mut frag = vec![0x00, name.len() as u8];
                    frag.extend_from_slice(name.as_bytes());
                    frag.push(3);
                    frag.extend_from_slice(b"val");
                    raw_frame(T_CONTINUATION, 0, st.target, &frag, out);
                }
            }
            if i + 1 == len {
                // complete the block
                let rest = if st.cyc == 0 { &[][..] } else { &LIT[st.cyc..] };
                raw_frame(T_CONTINUATION, F_END_HEADERS, st.target, rest, out);
            }
            true
        }
        "big-headers" if sc.variant == 3 => {
            // A list of about 2.4 x max_header_list_size cut at field boundaries so that every single frame decodes
            // to less than 0.8 x the limit: only accounting that is carried across the frames of a block sees it.
            let sid = p.alloc_sid();
            let mhls = sc.cfg.max_header_list_size.unwrap_or(16 << 20) as usize;
            let mut fields = request_fields(vp, "GET", i);
            let mut cost: usize = fields.iter().map(|(n, v)| n.len() + v.len() + 32).sum();
            let mut k = 0;
            while cost < mhls * 12 / 5 {
                let fl = f(&format!("x-big-{}-{}", i, k), "0123456789abcdefghij");
                cost += fl.0.len() + fl.1.len() + 32;
                fields.push(fl);
                k += 1;
            }
            let mut frags: Vec<Vec<u8>> = vec![Vec::new()];
            let mut in_frag = 0usize;
            for fl in &fields {
                let c = fl.0.len() + fl.1.len() + 32;
                if in_frag + c > mhls * 4 / 5 && !frags.last().unwrap().is_empty() {
                    frags.push(Vec::new());
                    in_frag = 0;
                }
                in_frag += c;
                let part = p.encode_block(std::slice::from_ref(fl));
                frags.last_mut().unwrap().extend_from_slice(&part);
            }
            let n = frags.len();
            for (j, fr) in frags.iter().enumerate() {
                let last = j + 1 == n;
                if j == 0 {
                    raw_frame(T_HEADERS, F_END_STREAM | if last { F_END_HEADERS } else { 0 }, sid, fr, out);
                } else {
                    raw_frame(T_CONTINUATION, if last { F_END_HEADERS } else { 0 }, sid, fr, out);
                }
            }
            st.big_list_size = st.big_list_size.max(cost);
            st.done = i >= 2;
            true
        }
        "big-headers" => {
            let sid = p.alloc_sid();
            let mut fields = request_fields(vp, "GET", i);
            for k in 0..len {
                fields.push(f(&format!("x-big-{}-{}", i, k), "0123456789abcdefghij"));
            }
            let block = p.encode_block(&fields);
            let mfs = p.sh.e_mfs as usize;
            // cut at the frame-size limit, or into many small CONTINUATION frames (each far below any limit)
            let frag = if sc.variant % 2 == 0 { mfs } else { 100 + rng.usize_below(300) };
            headers(sid, &block, true, None, None, frag.min(block.len()), frag, out);
            st.big_list_size = st.big_list_size.max(fields.iter().map(|(n, v)| n.len() + v.len() + 32).sum());
            st.done = i >= 2;
            true
        }
        "tiny-data" | "empty-data" => {
            let size = if sc.kind == "empty-data" {
                0
            } else {
                match sc.variant {
                    0 => 1,
                    1 => 1 + rng.usize_below(8),
                    2 => 255,
                    _ => 256,
                }
            };
            if sc.side_final && i % 2 == 1 {
                // a side stream: request head and a small final DATA frame in one write; the handler (program 8, or 9 in the odd variants)
                // resets the stream and drops the body unread. Final frames are not charged to the budget,
                // so discarding them must not top it up either.
                if p.sh.conn_window < 1 {
                    return false;
                }
                let side = p.alloc_sid();
                if side > 0x7fff_fff0 {
                    return false;
                }
                let block = p.encode_block(&request_fields(if sc.variant % 2 == 1 { 9 } else { 8 }, "POST", i));
                headers(side, &block, false, None, None, 0, 0, out);
                data(side, b"s", true, None, out);
                p.sh.conn_window -= 1;
                st.side_streams += 1;
                return true;
            }
            let sid = st.target;
            let iws = p.sh.e_iws;
            let sw = *p.sh.stream_window.entry(sid).or_insert(iws);
            let pad = if sc.kind == "tiny-data" { sc.data_pad } else { None };
            let flow = size as i64 + pad.map(|x| 1 + x as i64).unwrap_or(0);
            if flow > sw.min(p.sh.conn_window) {
                return false;
            }
            let payload = vec![b'z'; size];
            data(sid, &payload, false, pad, out);
            *p.sh.stream_window.get_mut(&sid).unwrap() -= flow;
            p.sh.conn_window -= flow;
            if size > 0 && size < 256 {
                st.small_frame_overhead += 256 - size as u64;
            }
            true
        }
        "ping" => {
            ping(false, (i as u64 ^ 0x5150_0000_0000).to_be_bytes(), out);
            true
        }
        "settings" => {
            match sc.variant {
                0 => settings(&[], out),
                1 => settings(&[(S_INITIAL_WINDOW_SIZE, 65_535 + (i % 2) as u32)], out),
                2 => settings(&[(S_HEADER_TABLE_SIZE, 4096 - (i % 64) as u32)], out),
                _ => settings(&[(0x99, i as u32)], out),
            }
            p.sent_settings += 1;
            true
        }
        "window-update" => {
            match sc.variant {
                0 => window_update(0, 1, out),
                1 => window_update(st.target, 1, out),
                2 => window_update(st.parent.max(1), 1, out),
                _ => window_update(if i % 2 == 0 { 0 } else { st.target }, 1 + rng.below(1000) as u32, out),
            }
            true
        }
        "priority" => {
            let sid = 1 + rng.below(0x7fff_fffe) as u32;
            let mut dep = rng.below(0x7fff_ffff) as u32;
            if dep == sid {
                dep = 0;
            }
            priority(sid, rng.chance(1, 2), dep, rng.byte(), out);
            true
        }
        "data-on-closed" => {
            if p.sh.conn_window < 1 {
                return false;
            }
            data(st.target, b"x", false, None, out);
            p.sh.conn_window -= 1;
            true
        }
        "rst-closed" => {
            rst(st.target, 8, out);
            true
        }
        "unknown" => {
            let n = rng.usize_below(64);
            let payload = rng.bytes(n);
            let sid = if rng.chance(1, 2) { 0 } else { rng.below(0x7fff_ffff) as u32 };
            raw_frame(0x0b + rng.below(0xf0) as u8, rng.byte(), sid, &payload, out);
            true
        }
        "frames-on-reset" => {
            if i % 2 == 0 || sc.variant == 0 {
                if p.sh.conn_window < 1 {
                    return false;
                }
                data(st.target, b"y", false, None, out);
                p.sh.conn_window -= 1;
            } else {
                let block = p.encode_block(&[f("x-trailer", "1")]);
                headers(st.target, &block, sc.variant == 3, None, None, 0, 0, out);
            }
            true
        }
        "push-open" if sc.variant % 2 == 1 && i >= len / 2 => {
            // second phase of "promise first, open later": all reservations were made while no pushed
            // stream was open, now every promised stream is opened and kept open
            let promised = 2 + 2 * (i - len / 2) as u32;
            if promised >= st.next_promised {
                return false;
            }
            let b = p.encode_block(&[f(":status", "200")]);
            headers(promised, &b, false, None, None, 0, 0, out);
            true
        }
        "push-promise" | "push-rst" | "push-complete" | "push-open" => {
            let promised = st.next_promised;
            if promised > 0x7fff_fff0 {
                return false;
            }
            st.next_promised += 2;
            let fields = vec![f(":method", "GET"), f(":scheme", "https"), f(":authority", "vp.test"), f(":path", &format!("/p{}", i))];
            let block = p.encode_block(&fields);
            push_promise(st.parent, promised, &block, None, 0, 0, out);
            match sc.kind {
                "push-rst" => rst(promised, 8, out),
                "push-complete" => {
                    let b = p.encode_block(&[f(":status", "200")]);
                    headers(promised, &b, true, None, None, 0, 0, out);
                }
                "push-open" if sc.variant % 2 == 0 => {
                    // the pushed response stays open until the epilogue: concurrently active pushed streams
                    let b = p.encode_block(&[f(":status", "200")]);
                    headers(promised, &b, false, None, None, 0, 0, out);
                }
                _ => {}
            }
            true
        }
        "interim" => {
            let b = p.encode_block(&[f(":status", "103"), f("x-i", &i.to_string())]);
            headers(st.parent, &b, false, None, None, 0, 0, out);
            true
        }
        _ => false,
    }
}

async fn flood_peer(mut p: RawPeer, sc: FloodScenario, len: usize, rep: Rc<RefCell<FloodReport>>, hook: SnapHook) {
    let mut rng = Rng::new(sc.seed ^ 0xabcd);
    if sc.withhold_settings_ack {
        p.auto_ack_settings = false;
    }
    if !p.handshake(&[]).await {
        return;
    }
    if sc.withhold_window {
        p.auto_grant = false;
    }
    let mut st = FloodState { side_streams: 0, big_list_size: 0, small_frame_overhead: 0, target: 0, parent: 0, next_promised: 2, cyc: 0, done: false };
    // ---- prelude: reach the state the flood needs
    if sc.e_server {
        match sc.kind {
            "tiny-data" | "empty-data" | "window-update" => {
                let sid = p.alloc_sid();
                st.target = sid;
                let vp = if sc.app == AppMode::Hold { 6 } else { 5 };
                p.open_request(sid, "POST", "/t", &[f("x-vp-id", &vp.to_string())], false).await;
            }
            "data-on-closed" | "rst-closed" => {
                let sid = p.alloc_sid();
                st.target = sid;
                p.open_request(sid, "GET", "/t", &[f("x-vp-id", "5")], true).await;
                // a closed stream is one E has answered completely (or refused)
                let ok = p.until(|s| s.streams.get(&sid).map(|x| x.es || x.rst.is_some()).unwrap_or(false)).await;
                if !ok && sc.app != AppMode::Ignore {
                    return;
                }
            }
            "frames-on-reset" => {
                let sid = p.alloc_sid();
                st.target = sid;
                p.open_request(sid, "POST", "/t", &[f("x-vp-id", "7")], false).await;
                p.until(|s| s.streams.get(&sid).map(|x| x.rst.is_some()).unwrap_or(false)).await;
            }
            _ => {}
        }
    } else {
        // E is a client: wait for its first request
        if !p.until(|s| !s.opened_by_e.is_empty()).await {
            return;
        }
        st.parent = p.sh.opened_by_e[0];
        st.target = st.parent;
        match sc.kind {
            "tiny-data" | "empty-data" => {
                p.respond(st.parent, 200, &[], false).await;
            }
            "rst-closed" => {
                p.respond(st.parent, 200, &[], true).await;
                p.settle_world(200).await;
            }
            _ => {}
        }
    }
    p.settle_world(200).await;
    rep.borrow_mut().prelude_ok = true;
    // ---- optionally block E's writes (E's write direction is the one the peer reads)
    let e_wdir = 1 - p.side.wdir();
    if sc.block_writes {
        let pipe = p.pipe;
        sim::with(|w| {
            w.pipes[pipe].set_blocked(e_wdir, true);
        });
        sim::log(p.pipe as u8, EvK::Note("flood: E's writes blocked".into()));
        let mut r = rep.borrow_mut();
        r.e_read_at_block = e_read_total(&p);
        r.sent_at_block = r.bytes_sent;
    }
    // ---- the flood
    let mut out = Vec::new();
    let mut i = 0;
    while i < len && !st.done {
        out.clear();
        let go = flood_item(&mut p, &sc, &mut st, i, len, &mut rng, &mut out);
        if !out.is_empty() {
            if matches!(sc.kind, "tiny-data" | "empty-data" | "data-on-closed" | "frames-on-reset") {
                hook.0.borrow_mut().peer_data_frames += 1;
            }
            p.send(&out).await;
            let mut r = rep.borrow_mut();
            r.items_sent += 1;
            r.bytes_sent += out.len() as u64;
        }
        if !go {
            rep.borrow_mut().stopped_early = "no-credit-or-ids";
            break;
        }
        if p.write_failed {
            rep.borrow_mut().stopped_early = "transport-closed-by-e";
            break;
        }
        i += 1;
        if sc.kind == "open-wait-rst" {
            // let E (and its application) react completely to the request, then reset it
            p.settle_world(50).await;
            let mut b = Vec::new();
            rst(st.target, 8, &mut b);
            p.send(&b).await;
            if p.sh.eof_from_e {
                rep.borrow_mut().stopped_early = "eof-from-e";
                break;
            }
        }
        if sc.pace > 0 && i % sc.pace == 0 {
            p.pump_now();
            p.settle().await;
            if sc.pace <= 4 {
                p.settle_world(50).await;
            }
            if p.sh.eof_from_e {
                rep.borrow_mut().stopped_early = "eof-from-e";
                break;
            }
        }
    }
    p.settle_world(300).await;
    {
        let mut r = rep.borrow_mut();
        r.e_read_after_flood = e_read_total(&p);
        r.sent_after_flood = r.bytes_sent;
        r.small_frame_overhead = st.small_frame_overhead;
        r.side_streams = st.side_streams;
        r.big_list_size = st.big_list_size;
        // outcome as seen right after the flood (before the epilogue lets the application go on)
        r.goaway_codes = p.sh.e_goaways.iter().map(|g| g.1).collect();
        r.target_rst_after_flood = p.sh.streams.get(&st.target).and_then(|x| x.rst);
    }
    if sc.block_writes {
        let pipe = p.pipe;
        let wk = sim::with(|w| w.pipes[pipe].set_blocked(e_wdir, false));
        if let Some(wk) = wk {
            wk.wake();
        }
        sim::log(p.pipe as u8, EvK::Note("flood: E's writes unblocked".into()));
        p.settle_world(300).await;
    }
    // ---- epilogue: let the application finish what it holds, then end the connection
    if sc.kind == "push-open" && !p.write_failed {
        let mut b = Vec::new();
        let mut sid = 2;
        while sid < st.next_promised {
            if !p.sh.streams.get(&sid).map(|x| x.rst.is_some()).unwrap_or(false) {
                data(sid, b"", true, None, &mut b);
            }
            sid += 2;
        }
        p.send(&b).await;
        p.settle_world(300).await;
    }
    p.auto_grant = true;
    p.release_withheld().await;
    sim::open_gate();
    if !sc.e_server && !p.write_failed && !p.sh.streams.get(&st.parent).map(|x| x.rst.is_some()).unwrap_or(false) && !matches!(sc.kind, "rst-closed") {
        let mut b = Vec::new();
        if matches!(sc.kind, "tiny-data" | "empty-data") {
            data(st.parent, &[], true, None, &mut b);
        } else {
            let blk = p.encode_block(&[f(":status", "200")]);
            headers(st.parent, &blk, true, None, None, 0, 0, &mut b);
        }
        p.send(&b).await;
    }
    p.settle_world(300).await;
    {
        let mut r = rep.borrow_mut();
        r.goaway_codes = p.sh.e_goaways.iter().map(|g| g.1).collect();
        r.rst_codes = p.sh.streams.values().filter_map(|s| s.rst).collect();
        r.opened_ids = p.used_ids.clone();
        r.rst_ids = p.sh.streams.iter().filter(|(_, s)| s.rst.is_some()).map(|(i, _)| *i).collect();
        r.ended_ids = p.sh.streams.iter().filter(|(_, s)| s.es || s.headers_blocks > 0).map(|(i, _)| *i).collect();
        r.closed_by_e = p.sh.eof_from_e || p.write_failed;
    }
    p.close();
    p.serve_forever().await;
}

fn flood_specs(sc: &FloodScenario) -> Vec<StreamSpec> {
    let fast = plain_spec(5, "POST", vec![], vec![3, 700]);
    let mut hold = plain_spec(6, "POST", vec![], vec![3]);
    hold.respond_gate = true;
    hold.req_read.mode = ReadMode::AfterGate;
    hold.respond_when = RespondWhen::Immediately;
    let mut reset = plain_spec(7, "POST", vec![], vec![]);
    reset.server_reset = Some(8);
    // program 8: the body is dropped without a read, then the stream is reset
    let mut drop_unread = plain_spec(8, "POST", vec![], vec![]);
    drop_unread.req_read.mode = ReadMode::StopAfter(0);
    drop_unread.server_reset = Some(8);
    // program 9: the body is dropped without a read and the request answered normally
    let mut drop_answer = plain_spec(9, "POST", vec![], vec![]);
    drop_answer.req_read.mode = ReadMode::StopAfter(0);
    let _ = sc;
    vec![fast, hold, reset, drop_unread, drop_answer]
}

pub struct RunPeaks {
    pub unheld: usize,
    pub held: usize,
    pub recv_events: usize,
    pub send_frames: usize,
    pub slab: usize,
    pub snapshots: u64,
}

fn run_one(sc: &FloodScenario, len: usize) -> (Outcome, FloodReport, RunPeaks) {
    sim::install(sc.seed ^ (len as u64).wrapping_mul(0x9e37), sc.sched);
    sim::with(|w| {
        w.gone_write_err = (1, 1);
        w.pipes.push(PipeState::new(0, sc.prof[0].clone(), sc.prof[1].clone()));
    });
    let ctl: ConnCtlRef = Default::default();
    let e = if sc.e_server { Side::Server } else { Side::Client };
    let hook = SnapHook::new(e, sc.cfg.conn_window());
    hook.set_c18(sc.bounds());
    let rep: Rc<RefCell<FloodReport>> = Default::default();
    if sc.e_server {
        let accept_limit = match sc.app {
            AppMode::Ignore => Some(0),
            AppMode::AcceptFew(k) => Some(k),
            _ => None,
        };
        sim::spawn("server-main", TaskKind::Conn, server_main(Ctx { conn: 0, side: Side::Server }, PipeEnd::new(0, Side::Server), sc.cfg.clone(), flood_specs(sc), ctl.clone(), hook.clone(), accept_limit));
        sim::spawn("raw-peer", TaskKind::App, flood_peer(RawPeer::new(0, Side::Client), sc.clone(), len, rep.clone(), hook.clone()));
    } else {
        let mut spec = plain_spec(2, "GET", vec![], vec![]);
        spec.client_polls_push = (sc.client_polls_push || sc.kind == "push-open") && sc.app != AppMode::Ignore;
        spec.client_polls_info = sc.variant % 2 == 0;
        match sc.app {
            AppMode::Fast | AppMode::AcceptFew(_) => {}
            AppMode::Hold => spec.resp_read.mode = ReadMode::AfterGate,
            AppMode::Ignore => {
                spec.respond_gate = true;
                spec.resp_read.mode = ReadMode::AfterGate;
            }
        }
        sim::spawn("client-app", TaskKind::App, raw_client_app(Ctx { conn: 0, side: Side::Client }, PipeEnd::new(0, Side::Client), sc.cfg.clone(), vec![spec], ctl.clone(), hook.clone()));
        sim::spawn("raw-peer", TaskKind::App, flood_peer(RawPeer::new(0, Side::Server), sc.clone(), len, rep.clone(), hook.clone()));
    }
    let end = sim::run(6_000_000);
    let rep_for_judge = rep.borrow().clone();
    let scn = sc.clone();
    let out = finish_raw(end, e, &[&hook], move |view, viol, stats, _notes| {
        // C18: a request whose header list is far beyond max_header_list_size never reaches the application,
        // however the block was cut into frames
        if scn.e_server && scn.kind == "big-headers" && rep_for_judge.prelude_ok {
            let est_list = rep_for_judge.big_list_size;
            let mhls = scn.cfg.max_header_list_size.unwrap_or(16 << 20) as usize;
            if est_list > 2 * mhls {
                stats.inc("flood.oversized_header_lists_sent");
                let accepted: Vec<u32> = mon::apis(view.evs()).filter(|(_, a)| a.side == Side::Server && a.op == Op::Accept && a.phase == Phase::Ret && matches!(a.res, Res::Ok)).map(|(_, a)| a.sid).collect();
                if let Some(sid) = rep_for_judge.opened_ids.iter().find(|i| accepted.contains(i)) {
                    viol.push(Violation::new("C18", "oversized-header-list-delivered", format!("a request with {} octets of header list (RFC 9113 6.5.2 accounting; flood variant {}: 0/2 cut at max_frame_size, 1 into 100-400 octet fragments, 3 at field boundaries with every frame below 0.8 x the limit) was handed to the application on stream {} although max_header_list_size is {}", est_list, scn.variant, sid, mhls)));
                }
            }
        }
        // C05: a stream opened beyond the limit is either refused or (within the limit) handed to the application -
        // never silently dropped. Judged for the plain opening floods against a server that stayed up.
        if scn.e_server && matches!(scn.kind, "open-only" | "open-es") && rep_for_judge.prelude_ok && !rep_for_judge.closed_by_e && rep_for_judge.goaway_codes.is_empty() {
            let accepted: Vec<u32> = mon::apis(view.evs()).filter(|(_, a)| a.side == Side::Server && a.op == Op::Accept && a.phase == Phase::Ret && matches!(a.res, Res::Ok)).map(|(_, a)| a.sid).collect();
            let lost: Vec<u32> = rep_for_judge.opened_ids.iter().filter(|i| !accepted.contains(i) && !rep_for_judge.rst_ids.contains(i) && !rep_for_judge.ended_ids.contains(i)).cloned().collect();
            stats.add("flood.opened_streams_accounted", rep_for_judge.opened_ids.len() as u64);
            // (an application that never accepts leaves streams within the limit waiting: only streams beyond it count)
            let limit = scn.cfg.max_concurrent_streams.unwrap_or(u32::MAX) as usize;
            if lost.len() > limit {
                viol.push(Violation::new("C05", "excess-stream-neither-refused-nor-surfaced", format!("{} of {} streams the peer opened were neither handed to the application nor answered with RST_STREAM although the endpoint stayed up and only {} may wait within its limit: first {:?}", lost.len(), rep_for_judge.opened_ids.len(), limit, &lost[..lost.len().min(8)])));
            }
        }
    });
    let peaks = {
        let st = hook.0.borrow();
        RunPeaks { unheld: st.max_unheld, held: st.max_held, recv_events: st.max_recv_buffer, send_frames: st.max_send_buffer, slab: st.max_slab, snapshots: st.count }
    };
    let r = rep.borrow().clone();
    (out, r, peaks)
}

/// Does every frame of this flood oblige E to write something before it may go on reading?
fn every_frame_owes_a_reply(sc: &FloodScenario) -> bool {
    matches!(sc.kind, "ping" | "settings")
}

pub fn run_flood(sc: &FloodScenario) -> Outcome {
    let b = sc.bounds();
    let (mut out, r1, p1) = run_one(sc, sc.n);
    let (out8, r8, p8) = run_one(sc, sc.n * 8);
    let mut stats = Stats::default();
    stats.merge(&out.stats);
    stats.merge(&out8.stats);
    let mut violations: Vec<Violation> = Vec::new();
    let mut seen = std::collections::BTreeSet::new();
    for v in out.violations.drain(..).chain(out8.violations.into_iter()) {
        if seen.insert((v.prop, v.rule.clone())) {
            violations.push(v);
        }
    }
    let mut notes = out.notes.clone();
    notes.extend(out8.notes.iter().cloned());
    let k = format!("flood.{}.{}", if sc.e_server { "server" } else { "client" }, sc.kind);
    stats.inc(&k);
    stats.inc(&format!("flood.app.{:?}", sc.app).replace(|c: char| c == '(' || c == ')' || c.is_ascii_digit(), ""));
    if sc.block_writes {
        stats.inc("flood.with_blocked_writes");
    }
    if sc.side_final {
        stats.inc("flood.side_final_scenarios");
        stats.add("flood.side_final_streams", r1.side_streams + r8.side_streams);
    }
    stats.add("flood.items_sent", (r1.items_sent + r8.items_sent) as u64);
    stats.add("flood.bytes_sent", r1.bytes_sent + r8.bytes_sent);
    stats.add("flood.snapshots_judged", p1.snapshots + p8.snapshots);
    for (r, tag) in [(&r1, "n"), (&r8, "8n")] {
        if !r.prelude_ok {
            stats.inc("flood.prelude_failed");
        }
        if !r.stopped_early.is_empty() {
            stats.inc(&format!("flood.stopped.{}", r.stopped_early));
        }
        for c in &r.goaway_codes {
            stats.inc(&format!("flood.outcome.goaway{}", c));
        }
        if r.goaway_codes.is_empty() {
            stats.inc("flood.outcome.absorbed-or-stream-level");
        }
        let refused = r.rst_codes.iter().filter(|c| **c == 7).count();
        stats.add("flood.refused_stream_rsts", refused as u64);
        stats.add("flood.other_rsts", (r.rst_codes.len() - refused) as u64);
        notes.push(format!("{}: items={} bytes={} stopped={:?} goaway={:?} rsts={} e_read_while_blocked={}", tag, r.items_sent, r.bytes_sent, r.stopped_early, r.goaway_codes, r.rst_codes.len(), r.e_read_after_flood.saturating_sub(r.e_read_at_block)));
    }
    for (p, tag) in [(&p1, "n"), (&p8, "8n")] {
        stats.max("max.flood.unheld_records", p.unheld as u64);
        stats.max("max.flood.held_records", p.held as u64);
        stats.max("max.flood.recv_events", p.recv_events as u64);
        stats.max("max.flood.send_frames", p.send_frames as u64);
        stats.max("max.flood.unheld_percent_of_bound", (p.unheld * 100 / b.unheld_records.max(1)) as u64);
        notes.push(format!("{}: peaks unheld={} held={} recv_events={} send_frames={} slab={} (bounds {:?})", tag, p.unheld, p.held, p.recv_events, p.send_frames, p.slab, b));
    }
    if p8.unheld > p1.unheld + 8 || p8.recv_events > 2 * p1.recv_events + 16 || p8.send_frames > 2 * p1.send_frames + 16 {
        // growth with the flood length, still inside the configured bound: reported, not judged
        stats.inc("flood.state_grew_with_length_within_bound");
    }
    // replies owed while E cannot write: consumption must stop
    if sc.block_writes && every_frame_owes_a_reply(sc) {
        for (r, tag) in [(&r1, "n"), (&r8, "8n")] {
            if !r.prelude_ok {
                continue;
            }
            let consumed = r.e_read_after_flood.saturating_sub(r.e_read_at_block);
            let limit = 64 * 1024 + 2 * sc.cfg.max_frame_size.unwrap_or(16_384) as u64;
            stats.max("max.flood.bytes_consumed_while_blocked", consumed);
            stats.inc("flood.blocked_reply_checks");
            if consumed > limit {
                violations.push(Violation::new("C18", "keeps-consuming-frames-that-need-replies-while-writes-are-blocked", format!("{} flood ({}): E consumed {} bytes of {} sent while its writes were blocked (limit {})", sc.kind, tag, consumed, r.sent_after_flood - r.sent_at_block, limit)));
            }
        }
    }
    // floods with a configured cut-off must end in a refusal, not be accommodated
    for (r, tag, len) in [(&r1, "n", sc.n), (&r8, "8n", sc.n * 8)] {
        if !r.prelude_ok || !r.stopped_early.is_empty() && r.stopped_early != "transport-closed-by-e" && r.stopped_early != "eof-from-e" {
            continue;
        }
        let refused = r.goaway_codes.iter().any(|c| *c != 0) || r.target_rst_after_flood.is_some() || !r.stopped_early.is_empty();
        let not_reading = matches!(sc.app, AppMode::Hold | AppMode::Ignore);
        let mfs = sc.cfg.max_frame_size.unwrap_or(16_384) as usize;
        let cont_bound = (2 * (sc.cfg.max_header_list_size.unwrap_or(16 << 20) as usize / mfs + 1) + 4).max(8);
        let due: Option<String> = match sc.kind {
            "continuation" if r.items_sent > cont_bound + 2 => Some(format!("{} CONTINUATION frames on one header block, more than 2 x (max_header_list_size / max_frame_size + 1) + 4 = {}", r.items_sent, cont_bound)),
            "empty-data" if r.items_sent > 120 => Some(format!("{} empty DATA frames, quota 100", r.items_sent)),
            "tiny-data" if not_reading && r.small_frame_overhead > sc.cfg.data_frame_budget.unwrap_or(25_600) as u64 + 512 => Some(format!("{} small DATA frames with {} octets of framing overhead (256 - payload each) buffered for an application that is not reading, data_frame_budget {}", r.items_sent, r.small_frame_overhead, sc.cfg.data_frame_budget.unwrap_or(25_600))),
            _ => None,
        };
        let _ = len;
        if let Some(why) = due {
            stats.inc("flood.refusal_due_checks");
            if !refused {
                violations.push(Violation::new("C18", format!("flood-accommodated-instead-of-refused:{}:{}", if sc.e_server { "server" } else { "client" }, sc.kind), format!("{} run: {}; the endpoint neither sent an error GOAWAY nor reset the stream nor closed (goaway codes {:?})", tag, why, r.goaway_codes)));
            }
        }
    }
    if r1.prelude_ok && r8.prelude_ok {
        stats.inc("nontrivial");
    }
    let mut fp = crate::rng::Fnv::default();
    fp.add_u64(out.fp);
    fp.add_u64(out8.fp);
    fp.add(sc.kind.as_bytes());
    Outcome { violations, notes, stats, fp: fp.0, nontrivial: Default::default(), quiescent: out.quiescent && out8.quiescent, steps_exhausted: out.steps_exhausted || out8.steps_exhausted, trace_tail: out8.trace_tail }
}
