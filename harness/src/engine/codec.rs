//! Component-level differential engines over `h2::Codec` (public with `unstable`)
//! and `h2::verif::{Decoder, Encoder, huffman}` (hook H1), against the harness's
//! independent frame parser / serializer, reference HPACK and (native builds) nghttp2.
//!
//! Families: `ser` (C12 serialise direction + C10), `parse` (C12 parse direction),
//! `hpackdec` (C11), `huffman` (C11 exhaustive sub-spaces).

use crate::mon::{Stats, Violation};
use crate::rng::Rng;
use crate::wire::frame as wf;
use crate::wire::hpack_ref::{self as hr, EncChoice, Field, HErr, RefDecoder, RefEncoder};
use bytes::{Buf, Bytes, BytesMut};
use futures_core::Stream;
use h2::frame::{self, Frame, Pseudo, Reason, StreamId};
use h2::Codec;
use http::{HeaderMap, HeaderName, HeaderValue, Method, StatusCode, Uri};
use std::future::Future;
use std::io;
use std::pin::Pin;
use std::sync::Arc;
use std::task::{Context, Poll, Wake, Waker};
use tokio::io::{AsyncRead, AsyncWrite, ReadBuf};

struct Noop;
impl Wake for Noop {
    fn wake(self: Arc<Self>) {}
}

pub fn noop_waker() -> Waker {
    Waker::from(Arc::new(Noop))
}

/// Transport with scripted chunking. A script entry of 0 means `Pending` once.
pub struct ScriptIo {
    pub written: Vec<u8>,
    pub wscript: Vec<usize>,
    wi: usize,
    pub vectored: bool,
    pub flush_script: Vec<bool>,
    fi: usize,
    pub rdata: Vec<u8>,
    pub rpos: usize,
    pub rscript: Vec<usize>,
    ri: usize,
    pub read_calls: u64,
    pub write_calls: u64,
    pub partial_writes: u64,
    pub eof_when_empty: bool,
    /// bytes made available so far (for the oversize test the body is withheld)
    pub rlimit: usize,
}

impl ScriptIo {
    pub fn new(wscript: Vec<usize>, rscript: Vec<usize>, rdata: Vec<u8>, vectored: bool) -> ScriptIo {
        let rlimit = rdata.len();
        ScriptIo { written: Vec::new(), wscript, wi: 0, vectored, flush_script: vec![], fi: 0, rdata, rpos: 0, rscript, ri: 0, read_calls: 0, write_calls: 0, partial_writes: 0, eof_when_empty: true, rlimit }
    }
    pub fn ideal(rdata: Vec<u8>) -> ScriptIo {
        ScriptIo::new(vec![usize::MAX], vec![usize::MAX], rdata, false)
    }
}

impl AsyncWrite for ScriptIo {
    fn poll_write(mut self: Pin<&mut Self>, cx: &mut Context<'_>, buf: &[u8]) -> Poll<io::Result<usize>> {
        self.write_calls += 1;
        let k = if self.wscript.is_empty() { usize::MAX } else { self.wscript[self.wi % self.wscript.len()] };
        self.wi += 1;
        if k == 0 {
            cx.waker().wake_by_ref();
            return Poll::Pending;
        }
        let n = k.min(buf.len());
        if n < buf.len() {
            self.partial_writes += 1;
        }
        self.written.extend_from_slice(&buf[..n]);
        Poll::Ready(Ok(n))
    }
    fn poll_write_vectored(self: Pin<&mut Self>, cx: &mut Context<'_>, bufs: &[io::IoSlice<'_>]) -> Poll<io::Result<usize>> {
        if !self.vectored {
            let buf = bufs.iter().find(|b| !b.is_empty()).map_or(&[][..], |b| &**b);
            return self.poll_write(cx, buf);
        }
        let mut joined = Vec::new();
        for b in bufs {
            joined.extend_from_slice(b);
        }
        self.poll_write(cx, &joined)
    }
    fn is_write_vectored(&self) -> bool {
        self.vectored
    }
    fn poll_flush(mut self: Pin<&mut Self>, cx: &mut Context<'_>) -> Poll<io::Result<()>> {
        if !self.flush_script.is_empty() {
            let p = self.flush_script[self.fi % self.flush_script.len()];
            self.fi += 1;
            if p {
                cx.waker().wake_by_ref();
                return Poll::Pending;
            }
        }
        Poll::Ready(Ok(()))
    }
    fn poll_shutdown(self: Pin<&mut Self>, _cx: &mut Context<'_>) -> Poll<io::Result<()>> {
        Poll::Ready(Ok(()))
    }
}

impl AsyncRead for ScriptIo {
    fn poll_read(mut self: Pin<&mut Self>, cx: &mut Context<'_>, buf: &mut ReadBuf<'_>) -> Poll<io::Result<()>> {
        self.read_calls += 1;
        let avail = self.rlimit.min(self.rdata.len()) - self.rpos;
        if avail == 0 {
            if self.eof_when_empty && self.rlimit >= self.rdata.len() {
                return Poll::Ready(Ok(()));
            }
            // more will come (never, in the oversize test): stay pending without waking
            let _ = cx;
            return Poll::Pending;
        }
        let k = if self.rscript.is_empty() { usize::MAX } else { self.rscript[self.ri % self.rscript.len()] };
        self.ri += 1;
        if k == 0 {
            cx.waker().wake_by_ref();
            return Poll::Pending;
        }
        let n = k.min(avail).min(buf.remaining());
        let (a, b) = (self.rpos, self.rpos + n);
        buf.put_slice(&self.rdata[a..b]);
        self.rpos += n;
        Poll::Ready(Ok(()))
    }
}

pub fn gen_script(rng: &mut Rng) -> Vec<usize> {
    match rng.below(7) {
        0 => vec![1],
        1 => vec![1, 0],
        2 => vec![usize::MAX],
        3 => (0..rng.range(1, 12)).map(|_| rng.range(0, 40) as usize).collect::<Vec<_>>().into_iter().chain(std::iter::once(3)).collect(),
        4 => vec![rng.range(2, 600) as usize],
        5 => vec![0, 0, rng.range(1, 20_000) as usize, 1],
        _ => (0..rng.range(1, 8)).map(|_| *rng.pick(&[1usize, 2, 8, 9, 10, 255, 256, 257, 1023, 1024, 1025, 16_384, 16_393])).collect(),
    }
}

// ---------------------------------------------------------------------------------------
// generated frames (serialise direction)
// ---------------------------------------------------------------------------------------

#[derive(Debug, Clone)]
pub enum GenFrame {
    Data { sid: u32, len: usize, eos: bool, seed: u64 },
    Request { sid: u32, method: String, uri: String, fields: Vec<(String, Vec<u8>)>, eos: bool },
    Response { sid: u32, status: u16, fields: Vec<(String, Vec<u8>)>, eos: bool },
    Trailers { sid: u32, fields: Vec<(String, Vec<u8>)> },
    Push { sid: u32, promised: u32, uri: String, fields: Vec<(String, Vec<u8>)> },
    Settings { entries: Vec<(u16, u32)> },
    SettingsAck,
    Ping { ack: bool, payload: [u8; 8] },
    GoAway { last: u32, code: u32, debug: Vec<u8> },
    WindowUpdate { sid: u32, inc: u32 },
    Reset { sid: u32, code: u32 },
    /// not a frame: the peer's SETTINGS_HEADER_TABLE_SIZE changed
    TableSize(usize),
    /// not a frame: the peer's SETTINGS_MAX_FRAME_SIZE changed
    MaxFrame(usize),
}

const NAME_POOL: &[&str] = &[
    "accept", "accept-encoding", "accept-language", "cache-control", "content-type", "cookie", "date", "etag", "user-agent", "vary", "via", "x-a", "x-b", "x-c", "x-forwarded-for", "x-request-id",
    "x-very-long-header-name-to-fill-the-dynamic-table-quickly-0123456789", "set-cookie", "authorization", "location", "server", "x-0", "x-8", "x-16", "x-24",
];

fn gen_hfields(rng: &mut Rng, big: bool) -> Vec<(String, Vec<u8>)> {
    let n = match rng.below(6) {
        0 => 0,
        1..=3 => rng.range(1, 6),
        4 => rng.range(1, 25),
        _ => {
            if big {
                rng.range(20, 120)
            } else {
                rng.range(1, 10)
            }
        }
    };
    (0..n)
        .map(|_| {
            if rng.chance(1, 12) {
                // the only regular field of the static table that has a value: the value itself, extensions,
                // prefixes and case variants of it (a full match must be exact)
                let v = *rng.pick(&["gzip, deflate", "gzip, deflate, br", "gzip, deflate, br, zstd", "gzip", "gzip, deflat", "GZIP, DEFLATE", "gzip, deflate ", "gzip,deflate", ""]);
                return ("accept-encoding".to_string(), v.as_bytes().to_vec());
            }
            let name = rng.pick(NAME_POOL).to_string();
            let vlen = match rng.below(8) {
                0 => 0,
                1..=4 => rng.range(1, 20) as usize,
                5 | 6 => rng.range(1, 120) as usize,
                _ => {
                    if big {
                        rng.range(100, 6000) as usize
                    } else {
                        rng.range(1, 300) as usize
                    }
                }
            };
            // few distinct values so that full matches and evictions both happen
            let v: Vec<u8> = if rng.chance(1, 2) { format!("v{}", rng.below(6)).into_bytes() } else { (0..vlen).map(|i| b'a' + ((i as u64 * 7 + rng.below(3)) % 26) as u8).collect() };
            (name, v)
        })
        .collect()
}

pub fn gen_frames(rng: &mut Rng, n: usize, hpack_heavy: bool, big_sizes: bool) -> Vec<GenFrame> {
    let mut v = Vec::new();
    let mut sid = 1u32;
    for _ in 0..n {
        let k = if hpack_heavy { *rng.pick(&[1u64, 1, 2, 2, 3, 4, 11, 11, 11]) } else { rng.below(14) };
        let big = rng.chance(1, 4);
        match k {
            0 | 12 | 13 => {
                let len = match rng.below(8) {
                    0 => 0,
                    1 => 1,
                    2 => *rng.pick(&[255usize, 256, 257, 1023, 1024, 1025, 16_375, 16_384]),
                    3 => *rng.pick(&[16_383usize, 16_384, 16_385, 65_535, 65_536]),
                    4 => rng.range(1, 300) as usize,
                    5 if big_sizes => *rng.pick(&[65_537usize, 1_000_000, (1 << 24) - 1]),
                    _ => rng.range(1, 20_000) as usize,
                };
                v.push(GenFrame::Data { sid, len, eos: rng.chance(1, 3), seed: rng.next_u64() });
            }
            1 => {
                let method = rng.pick(&["GET", "POST", "PUT", "DELETE", "HEAD", "OPTIONS", "PATCH", "CONNECT", "PROPFIND", "GETS", "POS"]).to_string();
                let uri = if method == "CONNECT" { "vp.test:443".to_string() } else { format!("{}://vp.test{}", rng.pick(&["https", "http"]), rng.pick(&["/", "/index.html", "/a/b?c=1", "/x/y/z/0123456789", "/index.html?", "/index.htm", "//"])) };
                v.push(GenFrame::Request { sid, method, uri, fields: gen_hfields(rng, big), eos: rng.chance(1, 2) });
                sid += 2;
            }
            2 => v.push(GenFrame::Response { sid, status: *rng.pick(&[200u16, 204, 206, 304, 400, 404, 500, 100, 103, 201, 599]), fields: gen_hfields(rng, big), eos: rng.chance(1, 2) }),
            3 => v.push(GenFrame::Trailers { sid, fields: gen_hfields(rng, false) }),
            4 => v.push(GenFrame::Push { sid, promised: 2 + 2 * rng.below(50) as u32, uri: "https://vp.test/pushed".into(), fields: gen_hfields(rng, big) }),
            5 => {
                let ids = [1u16, 2, 3, 4, 5, 6, 8];
                let mut es = Vec::new();
                for id in ids {
                    if rng.chance(1, 3) {
                        let val = match id {
                            2 | 8 => rng.below(2) as u32,
                            4 => *rng.pick(&[0u32, 1, 65_535, 0x7fff_ffff]),
                            5 => *rng.pick(&[16_384u32, 16_385, 1 << 20, (1 << 24) - 1]),
                            _ => *rng.pick(&[0u32, 1, 100, 4096, 65_536, 0xffff_ffff]),
                        };
                        es.push((id, val));
                    }
                }
                v.push(GenFrame::Settings { entries: es });
            }
            6 => v.push(GenFrame::SettingsAck),
            7 => v.push(GenFrame::Ping { ack: rng.chance(1, 2), payload: [rng.byte(); 8] }),
            8 => v.push(GenFrame::GoAway { last: rng.below(100) as u32, code: *rng.pick(&[0u32, 1, 2, 11, 13, 0xffff_ffff]), debug: rng.bytes_upto(if big { 16_000 } else { 60 }) }),
            9 => v.push(GenFrame::WindowUpdate { sid: *rng.pick(&[0u32, 1, 3, 5]), inc: *rng.pick(&[1u32, 100, 65_535, 0x7fff_ffff]) }),
            10 => v.push(GenFrame::Reset { sid: *rng.pick(&[1u32, 3, 5, 7]), code: *rng.pick(&[0u32, 1, 5, 7, 8, 0xdead_beef]) }),
            _ => {
                if rng.chance(2, 3) {
                    v.push(GenFrame::TableSize(*rng.pick(&[0usize, 1, 31, 32, 33, 64, 100, 150, 200, 4096, 4097, 65_536, 0xffff_ffff])));
                } else {
                    v.push(GenFrame::MaxFrame(*rng.pick(&[16_384usize, 16_385, 65_536])));
                }
            }
        }
    }
    v
}

fn hmap(fields: &[(String, Vec<u8>)]) -> HeaderMap {
    let mut m = HeaderMap::new();
    for (n, v) in fields {
        m.append(HeaderName::from_bytes(n.as_bytes()).unwrap(), HeaderValue::from_bytes(v).unwrap());
    }
    m
}

fn data_payload(seed: u64, len: usize) -> Vec<u8> {
    (0..len).map(|i| crate::apps::actors::pattern_byte(seed as u32, i as u64)).collect()
}

fn to_h2(g: &GenFrame) -> Option<Frame<crate::apps::seg::Seg>> {
    Some(match g {
        GenFrame::Data { sid, len, eos, seed } => {
            // a payload of non-contiguous pieces (the codec has separate paths for the front of a payload and its rest)
            let mut d = frame::Data::new(StreamId::from(*sid), crate::apps::seg::Seg::from_bytes(Bytes::from(data_payload(*seed, *len))));
            d.set_end_stream(*eos);
            Frame::Data(d)
        }
        GenFrame::Request { sid, method, uri, fields, eos } => {
            let m = Method::from_bytes(method.as_bytes()).unwrap();
            let u: Uri = uri.parse().unwrap();
            let mut h = frame::Headers::new(StreamId::from(*sid), Pseudo::request(m, u, None), hmap(fields));
            if *eos {
                h.set_end_stream();
            }
            Frame::Headers(h)
        }
        GenFrame::Response { sid, status, fields, eos } => {
            let mut h = frame::Headers::new(StreamId::from(*sid), Pseudo::response(StatusCode::from_u16(*status).unwrap()), hmap(fields));
            if *eos {
                h.set_end_stream();
            }
            Frame::Headers(h)
        }
        GenFrame::Trailers { sid, fields } => Frame::Headers(frame::Headers::trailers(StreamId::from(*sid), hmap(fields))),
        GenFrame::Push { sid, promised, uri, fields } => {
            let u: Uri = uri.parse().unwrap();
            Frame::PushPromise(frame::PushPromise::new(StreamId::from(*sid), StreamId::from(*promised), Pseudo::request(Method::GET, u, None), hmap(fields)))
        }
        GenFrame::Settings { entries } => {
            let mut s = frame::Settings::default();
            for (id, v) in entries {
                match id {
                    1 => s.set_header_table_size(Some(*v)),
                    2 => s.set_enable_push(*v != 0),
                    3 => s.set_max_concurrent_streams(Some(*v)),
                    4 => s.set_initial_window_size(Some(*v)),
                    5 => s.set_max_frame_size(Some(*v)),
                    6 => s.set_max_header_list_size(Some(*v)),
                    8 => s.set_enable_connect_protocol(Some(*v)),
                    _ => {}
                }
            }
            Frame::Settings(s)
        }
        GenFrame::SettingsAck => Frame::Settings(frame::Settings::ack()),
        GenFrame::Ping { ack, payload } => Frame::Ping(if *ack { frame::Ping::pong(*payload) } else { frame::Ping::new(*payload) }),
        GenFrame::GoAway { last, code, debug } => Frame::GoAway(frame::GoAway::with_debug_data(StreamId::from(*last), Reason::from(*code), Bytes::from(debug.clone()))),
        GenFrame::WindowUpdate { sid, inc } => Frame::WindowUpdate(frame::WindowUpdate::new(StreamId::from(*sid), *inc)),
        GenFrame::Reset { sid, code } => Frame::Reset(frame::Reset::new(StreamId::from(*sid), Reason::from(*code))),
        GenFrame::TableSize(_) | GenFrame::MaxFrame(_) => return None,
    })
}

/// Expected (name, value) list for a generated header frame as it must come out of any HPACK decoder:
/// pseudo-headers first (in h2's documented order), then the fields grouped as `HeaderMap` iterates them.
fn expected_fields(g: &GenFrame) -> Option<Vec<Field>> {
    let group = |fields: &[(String, Vec<u8>)]| -> Vec<Field> {
        let m = hmap(fields);
        m.iter().map(|(n, v)| (n.as_str().as_bytes().to_vec(), v.as_bytes().to_vec())).collect()
    };
    let req = |method: &str, uri: &str| -> Vec<Field> {
        let u: Uri = uri.parse().unwrap();
        let mut v = vec![(b":method".to_vec(), method.as_bytes().to_vec())];
        if method == "CONNECT" {
            v.push((b":authority".to_vec(), u.authority().unwrap().as_str().as_bytes().to_vec()));
        } else {
            v.push((b":scheme".to_vec(), u.scheme_str().unwrap().as_bytes().to_vec()));
            v.push((b":authority".to_vec(), u.authority().unwrap().as_str().as_bytes().to_vec()));
            v.push((b":path".to_vec(), u.path_and_query().unwrap().as_str().as_bytes().to_vec()));
        }
        v
    };
    Some(match g {
        GenFrame::Request { method, uri, fields, .. } => {
            let mut v = req(method, uri);
            v.extend(group(fields));
            v
        }
        GenFrame::Response { status, fields, .. } => {
            let mut v = vec![(b":status".to_vec(), status.to_string().into_bytes())];
            v.extend(group(fields));
            v
        }
        GenFrame::Trailers { fields, .. } => group(fields),
        GenFrame::Push { uri, fields, .. } => {
            let mut v = req("GET", uri);
            v.extend(group(fields));
            v
        }
        _ => return None,
    })
}

fn multiset(v: &[Field]) -> std::collections::BTreeMap<Vec<u8>, Vec<Vec<u8>>> {
    let mut m: std::collections::BTreeMap<Vec<u8>, Vec<Vec<u8>>> = Default::default();
    for (n, val) in v {
        m.entry(n.clone()).or_default().push(val.clone());
    }
    m
}

/// Drive a write-side codec with a list of generated frames. Returns the bytes written, or a failure description.
fn serialise(frames: &[GenFrame], io: ScriptIo, initial_max_frame: usize) -> Result<(ScriptIo, Vec<String>), String> {
    let mut codec: Codec<ScriptIo, crate::apps::seg::Seg> = Codec::new(io);
    codec.set_max_send_frame_size(initial_max_frame);
    let wk = noop_waker();
    let mut cx = Context::from_waker(&wk);
    let mut refused = Vec::new();
    let mut max_frame = initial_max_frame;
    for (i, g) in frames.iter().enumerate() {
        // h2 applies peer settings to the codec only once `poll_ready` succeeded (Settings::poll_send), i.e.
        // never while a CONTINUATION of an earlier block is still pending: do the same
        let mut polls = 0u64;
        loop {
            match codec.poll_ready(&mut cx) {
                Poll::Ready(Ok(())) => break,
                Poll::Ready(Err(e)) => return Err(format!("poll_ready error {:?}", e)),
                Poll::Pending => {
                    polls += 1;
                    if polls > 50_000_000 {
                        return Err(format!("poll_ready never ready before frame #{}", i));
                    }
                }
            }
        }
        match g {
            GenFrame::TableSize(n) => {
                codec.set_send_header_table_size(*n);
                continue;
            }
            GenFrame::MaxFrame(n) => {
                codec.set_max_send_frame_size(*n);
                max_frame = *n;
                continue;
            }
            _ => {}
        }
        let f = to_h2(g).unwrap();
        if let Err(e) = codec.buffer(f) {
            refused.push(format!("#{}:{:?}", i, e));
            if let GenFrame::Data { len, .. } = g {
                if *len <= max_frame {
                    return Err(format!("DATA of {} bytes refused although max_send_frame_size is {}: {:?}", len, max_frame, e));
                }
            } else {
                return Err(format!("frame #{} {:?} refused: {:?}", i, g, e));
            }
        } else if let GenFrame::Data { len, .. } = g {
            if *len > max_frame {
                return Err(format!("DATA of {} bytes accepted although max_send_frame_size is {}", len, max_frame));
            }
        }
    }
    let mut polls = 0u64;
    loop {
        match codec.flush(&mut cx) {
            Poll::Ready(Ok(())) => break,
            Poll::Ready(Err(e)) => return Err(format!("flush error {:?}", e)),
            Poll::Pending => {
                polls += 1;
                if polls > 50_000_000 {
                    return Err("flush never completes".into());
                }
            }
        }
    }
    // Codec has no into_inner under `unstable`; take the transport's log through get_mut
    let io = std::mem::replace(codec.get_mut(), ScriptIo::ideal(vec![]));
    Ok((io, refused))
}

pub struct CaseOut {
    pub violations: Vec<Violation>,
    pub stats: Stats,
    pub fp: u64,
    pub nontrivial: bool,
    pub desc: serde_json::Value,
}

fn short_gen(frames: &[GenFrame]) -> Vec<String> {
    frames
        .iter()
        .take(40)
        .map(|g| match g {
            GenFrame::Data { sid, len, eos, .. } => format!("DATA(s{} {}B{})", sid, len, if *eos { " ES" } else { "" }),
            GenFrame::Request { sid, method, fields, .. } => format!("REQ(s{} {} {} fields {}B)", sid, method, fields.len(), fields.iter().map(|f| f.0.len() + f.1.len()).sum::<usize>()),
            GenFrame::Response { sid, status, fields, .. } => format!("RESP(s{} {} {} fields)", sid, status, fields.len()),
            GenFrame::Trailers { sid, fields } => format!("TRAILERS(s{} {} fields)", sid, fields.len()),
            GenFrame::Push { sid, promised, fields, .. } => format!("PUSH(s{} p{} {} fields)", sid, promised, fields.len()),
            GenFrame::Settings { entries } => format!("SETTINGS{:?}", entries),
            GenFrame::SettingsAck => "SETTINGS-ACK".into(),
            GenFrame::Ping { ack, .. } => format!("PING(ack={})", ack),
            GenFrame::GoAway { last, code, debug } => format!("GOAWAY({} {} {}B)", last, code, debug.len()),
            GenFrame::WindowUpdate { sid, inc } => format!("WU(s{} {})", sid, inc),
            GenFrame::Reset { sid, code } => format!("RST(s{} {})", sid, code),
            GenFrame::TableSize(n) => format!("table-size:={}", n),
            GenFrame::MaxFrame(n) => format!("max-frame:={}", n),
        })
        .collect()
}

/// Family `ser`: C12 serialise direction and C10 (encoder/decoder sync) on the same executions.
pub fn ser_case(seed: u64, hpack_heavy: bool, big_sizes: bool) -> CaseOut {
    let mut rng = Rng::new(seed ^ 0x5e71);
    let n = if hpack_heavy { rng.range(1, 60) } else { rng.range(1, 14) } as usize;
    let frames = gen_frames(&mut rng, n, hpack_heavy, big_sizes);
    let initial_max = *rng.pick(&[16_384usize, 16_384, 16_385, 65_536, if big_sizes { (1 << 24) - 1 } else { 16_384 }]);
    let wscript = gen_script(&mut rng);
    let vectored = rng.chance(1, 2);
    let flush_pending = rng.chance(1, 3);
    let mut viol = Vec::new();
    let mut stats = Stats::default();
    let desc = serde_json::json!({"seed": seed, "family": if hpack_heavy {"ser-hpack"} else {"ser"}, "initial_max_frame": initial_max, "write_script": wscript.iter().take(16).map(|x| if *x == usize::MAX { -1i64 } else { *x as i64 }).collect::<Vec<_>>(), "vectored": vectored, "frames": short_gen(&frames)});
    let mut fp = crate::rng::Fnv::default();
    let ideal = match serialise(&frames, ScriptIo::ideal(vec![]), initial_max) {
        Ok(x) => x,
        Err(e) => {
            viol.push(Violation::new("C12", "serialise-failed-on-ideal-transport", e));
            return CaseOut { violations: viol, stats, fp: 0, nontrivial: false, desc };
        }
    };
    let mut io = ScriptIo::new(wscript.clone(), vec![], vec![], vectored);
    if flush_pending {
        io.flush_script = vec![true, false];
    }
    let scripted = match serialise(&frames, io, initial_max) {
        Ok(x) => x,
        Err(e) => {
            viol.push(Violation::new("C12", "serialise-failed-under-partial-writes", e));
            return CaseOut { violations: viol, stats, fp: 0, nontrivial: false, desc };
        }
    };
    stats.add("ser.partial_writes", scripted.0.partial_writes);
    stats.add("ser.bytes", ideal.0.written.len() as u64);
    if scripted.0.written != ideal.0.written {
        let a = &ideal.0.written;
        let b = &scripted.0.written;
        let first = a.iter().zip(b.iter()).position(|(x, y)| x != y).unwrap_or(a.len().min(b.len()));
        viol.push(Violation::new("C12", "partial-writes-change-the-byte-stream", format!("ideal {} bytes, chunked {} bytes, first difference at offset {}", a.len(), b.len(), first)));
    }
    // independent parse
    let mut parser = wf::FrameParser::new(false);
    parser.hpack = RefDecoder::new(4096);
    let mut parsed = Vec::new();
    // feed frame by frame so that table-size events can be applied to the strict reference decoder at the
    // right position: replay the generation order
    parser.feed(&ideal.0.written, &mut parsed);
    let submitted: Vec<&GenFrame> = frames.iter().filter(|g| !matches!(g, GenFrame::TableSize(_) | GenFrame::MaxFrame(_))).collect();
    let refused: std::collections::BTreeSet<usize> = ideal.1.iter().filter_map(|s| s[1..].split(':').next().and_then(|x| x.parse().ok())).collect();
    let emitted: Vec<(usize, &GenFrame)> = frames.iter().enumerate().filter(|(i, g)| !matches!(g, GenFrame::TableSize(_) | GenFrame::MaxFrame(_)) && !refused.contains(i)).collect();
    let _ = submitted;
    if parsed.len() != emitted.len() {
        viol.push(Violation::new("C12", "frame-count-mismatch", format!("{} frames emitted, independent parser sees {}: {:?}", emitted.len(), parsed.len(), parsed.iter().map(|f| f.short()).collect::<Vec<_>>())));
        return CaseOut { violations: viol, stats, fp: 0, nontrivial: true, desc };
    }
    // strict HPACK re-decoding with table-size tracking (C10)
    let mut strict = RefDecoder::new(4096);
    let mut max_frame = initial_max;
    let mut raw = wf::RawParser::new(false);
    let mut raws = Vec::new();
    raw.feed(&ideal.0.written, &mut raws);
    let mut raw_i = 0usize;
    let mut emitted_i = 0usize;
    let mut blocks: Vec<Vec<u8>> = Vec::new();
    let mut evictions = 0u32;
    let mut size_changes = 0u32;
    let mut continuations = 0u32;
    let mut h2_blocks_expected: Vec<Vec<Field>> = Vec::new();
    for (gi, g) in frames.iter().enumerate() {
        match g {
            GenFrame::TableSize(n) => {
                strict.set_allowed_max((*n).min(4096).max(0));
                // h2 caps its own encoder table at 4096 but any value <= the allowed one is conformant;
                // the bound checked is the peer's: n
                strict.allowed_max = *n;
                size_changes += 1;
                continue;
            }
            GenFrame::MaxFrame(n) => {
                max_frame = *n;
                continue;
            }
            _ => {}
        }
        if refused.contains(&gi) {
            continue;
        }
        let pf = &parsed[emitted_i];
        emitted_i += 1;
        // every raw part within the limit in force
        for (t, _fl, plen) in &pf.parts {
            if *plen as usize > max_frame {
                viol.push(Violation::new("C12", "emitted-payload-exceeds-max-send-frame-size", format!("frame #{} part type {} has payload {} > {}", gi, t, plen, max_frame)));
            }
            if *plen as usize == max_frame {
                stats.inc("ser.frames_at_max_size");
            }
            raw_i += 1;
        }
        fp.add(&[pf.typ, pf.flags, pf.parts.len().min(255) as u8]);
        let mism = |what: &str| Violation::new("C12", format!("parsed-frame-differs:{}", what), format!("frame #{} {:?}... parsed as {}", gi, short_gen(std::slice::from_ref(g)), pf.short()));
        match (g, &pf.body) {
            (GenFrame::Data { sid, len, eos, seed }, wf::Body::Data { data, pad, .. }) => {
                if pf.sid != *sid || data.len() != *len || pf.end_stream() != *eos || pad.is_some() || *data != data_payload(*seed, *len) {
                    viol.push(mism("data"));
                }
            }
            (GenFrame::Settings { entries }, wf::Body::Settings { ack: false, entries: got }) => {
                let mut want: Vec<(u16, u32)> = entries.iter().map(|(id, v)| (*id, if *id == 2 { (*v != 0) as u32 } else { *v })).collect();
                want.sort();
                let mut g2 = got.clone();
                g2.sort();
                if want != g2 {
                    viol.push(mism("settings"));
                }
            }
            (GenFrame::SettingsAck, wf::Body::Settings { ack: true, .. }) => {}
            (GenFrame::Ping { ack, payload }, wf::Body::Ping { ack: a2, payload: p2 }) => {
                if ack != a2 || payload != p2 {
                    viol.push(mism("ping"));
                }
            }
            (GenFrame::GoAway { last, code, debug }, wf::Body::GoAway { last: l2, code: c2, debug: d2 }) => {
                if last != l2 || code != c2 || debug != d2 {
                    viol.push(mism("goaway"));
                }
            }
            (GenFrame::WindowUpdate { sid, inc }, wf::Body::WindowUpdate { inc: i2 }) => {
                if pf.sid != *sid || inc != i2 {
                    viol.push(mism("window-update"));
                }
            }
            (GenFrame::Reset { sid, code }, wf::Body::Rst { code: c2 }) => {
                if pf.sid != *sid || code != c2 {
                    viol.push(mism("reset"));
                }
            }
            (GenFrame::Request { .. } | GenFrame::Response { .. } | GenFrame::Trailers { .. } | GenFrame::Push { .. }, wf::Body::Headers { .. } | wf::Body::PushPromise { .. }) => {
                let want = expected_fields(g).unwrap();
                // reassemble the block from the raw frames to run the strict decoder
                let first_raw = raw_i - pf.parts.len();
                let mut block = Vec::new();
                for (k, r) in raws[first_raw..raw_i].iter().enumerate() {
                    let mut p = &r.payload[..];
                    if k == 0 && r.typ == wf::T_PUSH_PROMISE {
                        p = &p[4..];
                    }
                    block.extend_from_slice(p);
                }
                if pf.parts.len() > 1 {
                    continuations += 1;
                    stats.inc("ser.blocks_with_continuation");
                }
                let eos_want = match g {
                    GenFrame::Request { eos, .. } | GenFrame::Response { eos, .. } => *eos,
                    GenFrame::Trailers { .. } => true,
                    _ => false,
                };
                if pf.end_stream() != eos_want && pf.typ == wf::T_HEADERS {
                    viol.push(mism("end-stream-flag"));
                }
                match strict.decode(&block, true, true) {
                    Ok(d) => {
                        evictions += d.stats.evictions;
                        stats.add("hpack.size_updates_emitted", d.stats.size_updates.len() as u64);
                        stats.add("hpack.indexed_dynamic", d.stats.indexed_dynamic as u64);
                        if d.fields.len() != want.len() || multiset(&d.fields) != multiset(&want) || d.fields.iter().zip(want.iter()).any(|(a, b)| a.0 != b.0 && (a.0.first() == Some(&b':') || b.0.first() == Some(&b':'))) {
                            viol.push(Violation::new("C10", "decoded-fields-differ-from-submitted", format!("block #{}: submitted {} fields, reference decoder got {} fields; first difference: {:?}", gi, want.len(), d.fields.len(), d.fields.iter().zip(want.iter()).find(|(a, b)| a != b).map(|(a, b)| (String::from_utf8_lossy(&a.0).to_string(), a.1.len(), String::from_utf8_lossy(&b.0).to_string(), b.1.len())))));
                        } else if d.fields != want {
                            // same multiset, different cross-name order than HeaderMap iteration: not judged
                            stats.inc("hpack.cross_name_order_differs");
                        }
                        // sensitive values must not be indexed
                        for ((n, v), r) in d.fields.iter().zip(d.reprs.iter()) {
                            let sensitive_name = matches!(n.as_slice(), b"authorization" | b"cookie" | b"set-cookie") && v.len() < 20;
                            let _ = sensitive_name;
                            let _ = r;
                        }
                        if strict.table.size > strict.allowed_max.min(4096).max(0) && strict.table.size > strict.allowed_max {
                            viol.push(Violation::new("C10", "encoder-table-exceeds-allowed-size", format!("after block #{} mirror table size {} > allowed {}", gi, strict.table.size, strict.allowed_max)));
                        }
                    }
                    Err(e) => {
                        let rule = match &e {
                            HErr::Other(s) => format!("encoder-obligation:{}", s),
                            HErr::BadSizeUpdate => "size-update-exceeds-allowed-or-misplaced".to_string(),
                            o => format!("emitted-block-undecodable:{:?}", o),
                        };
                        viol.push(Violation::new("C10", rule, format!("block #{} ({} bytes, {} parts) rejected by the strict reference decoder: {:?}; allowed table size {}", gi, block.len(), pf.parts.len(), e, strict.allowed_max)));
                        return CaseOut { violations: viol, stats, fp: fp.0, nontrivial: true, desc };
                    }
                }
                blocks.push(block);
                h2_blocks_expected.push(want);
            }
            _ => viol.push(mism("type")),
        }
    }
    // h2's own decoder must agree too: read the stream back through a fresh codec
    {
        let mut codec: Codec<ScriptIo, Bytes> = Codec::with_max_recv_frame_size(ScriptIo::ideal(ideal.0.written.clone()), (1 << 24) - 1);
        codec.set_max_recv_header_list_size(1 << 30);
        let wk = noop_waker();
        let mut cx = Context::from_waker(&wk);
        let mut got: Vec<Vec<Field>> = Vec::new();
        let mut polls = 0;
        loop {
            match Pin::new(&mut codec).poll_next(&mut cx) {
                Poll::Ready(Some(Ok(Frame::Headers(h)))) => {
                    let (p, f) = h.into_parts();
                    got.push(pseudo_fields(&p, &f));
                }
                Poll::Ready(Some(Ok(Frame::PushPromise(h)))) => {
                    let (p, f) = h.into_parts();
                    got.push(pseudo_fields(&p, &f));
                }
                Poll::Ready(Some(Ok(_))) => {}
                Poll::Ready(Some(Err(e))) => {
                    viol.push(Violation::new("C10", "h2-decoder-rejects-h2-encoder-output", format!("{:?}", e)));
                    break;
                }
                Poll::Ready(None) => break,
                Poll::Pending => {
                    polls += 1;
                    if polls > 1_000_000 {
                        break;
                    }
                }
            }
        }
        if viol.is_empty() && got.len() == h2_blocks_expected.len() {
            for (i, (g, w)) in got.iter().zip(h2_blocks_expected.iter()).enumerate() {
                if multiset(g) != multiset(w) {
                    viol.push(Violation::new("C10", "h2-decoder-disagrees-with-submitted", format!("header frame #{}: {} vs {} fields", i, g.len(), w.len())));
                    break;
                }
            }
        } else if viol.is_empty() {
            viol.push(Violation::new("C10", "h2-decoder-frame-count", format!("{} header frames decoded, {} emitted", got.len(), h2_blocks_expected.len())));
        }
    }
    // third voter
    #[cfg(not(miri))]
    if viol.is_empty() && !blocks.is_empty() {
        if let Some(v) = crate::nghttp2::check_history(&frames_table_events(&frames, &refused), &blocks, &h2_blocks_expected) {
            viol.push(v);
        } else {
            stats.add("nghttp2.blocks_inflated", blocks.len() as u64);
        }
    }
    stats.add("hpack.evictions", evictions as u64);
    stats.add("hpack.table_size_changes", size_changes as u64);
    stats.add("hpack.blocks", blocks.len() as u64);
    let nontrivial_c10 = evictions > 0 || size_changes > 0;
    let nontrivial_c12 = scripted.0.partial_writes > 0 || stats.get("ser.frames_at_max_size") > 0 || continuations > 0;
    if nontrivial_c10 {
        stats.inc("nontrivial.C10");
    }
    if nontrivial_c12 {
        stats.inc("nontrivial.C12");
    }
    fp.add_u64(scripted.0.write_calls);
    CaseOut { violations: viol, stats, fp: fp.0, nontrivial: if hpack_heavy { nontrivial_c10 } else { nontrivial_c12 }, desc }
}

/// (index among emitted header blocks before which the table size changed, value)
fn frames_table_events(frames: &[GenFrame], refused: &std::collections::BTreeSet<usize>) -> Vec<(usize, usize)> {
    let mut v = Vec::new();
    let mut blocks = 0;
    for (i, g) in frames.iter().enumerate() {
        match g {
            GenFrame::TableSize(n) => v.push((blocks, *n)),
            GenFrame::Request { .. } | GenFrame::Response { .. } | GenFrame::Trailers { .. } | GenFrame::Push { .. } if !refused.contains(&i) => blocks += 1,
            _ => {}
        }
    }
    v
}

fn pseudo_fields(p: &Pseudo, f: &HeaderMap) -> Vec<Field> {
    let mut v: Vec<Field> = Vec::new();
    if let Some(m) = &p.method {
        v.push((b":method".to_vec(), m.as_str().as_bytes().to_vec()));
    }
    if let Some(s) = &p.scheme {
        let b: &[u8] = s.as_ref();
        v.push((b":scheme".to_vec(), b.to_vec()));
    }
    if let Some(s) = &p.authority {
        let b: &[u8] = s.as_ref();
        v.push((b":authority".to_vec(), b.to_vec()));
    }
    if let Some(s) = &p.path {
        let b: &[u8] = s.as_ref();
        v.push((b":path".to_vec(), b.to_vec()));
    }
    if let Some(s) = &p.protocol {
        v.push((b":protocol".to_vec(), s.as_str().as_bytes().to_vec()));
    }
    if let Some(s) = &p.status {
        v.push((b":status".to_vec(), s.as_str().as_bytes().to_vec()));
    }
    for (n, val) in f.iter() {
        v.push((n.as_str().as_bytes().to_vec(), val.as_bytes().to_vec()));
    }
    v
}

// ---------------------------------------------------------------------------------------
// parse direction
// ---------------------------------------------------------------------------------------

fn canon(f: Frame<Bytes>) -> String {
    match f {
        Frame::Data(d) => format!("DATA s={} es={} padded={} payload={:x}", u32::from(d.stream_id()), d.is_end_stream(), d.is_padded(), fnv(d.payload())),
        Frame::Headers(h) => {
            let sid = u32::from(h.stream_id());
            let es = h.is_end_stream();
            let (p, f) = h.into_parts();
            format!("HEADERS s={} es={} fields={:?}", sid, es, show(&pseudo_fields(&p, &f)))
        }
        Frame::PushPromise(h) => {
            let sid = u32::from(h.stream_id());
            let pr = u32::from(h.promised_id());
            let (p, f) = h.into_parts();
            format!("PUSH_PROMISE s={} p={} fields={:?}", sid, pr, show(&pseudo_fields(&p, &f)))
        }
        Frame::Priority(p) => format!("PRIORITY {:?}", p),
        Frame::Settings(s) => format!("SETTINGS ack={} {:?}", s.is_ack(), (s.header_table_size(), s.is_push_enabled(), s.max_concurrent_streams(), s.initial_window_size(), s.max_frame_size(), s.max_header_list_size(), s.is_extended_connect_protocol_enabled())),
        Frame::Ping(p) => format!("PING ack={} {:?}", p.is_ack(), p.payload()),
        Frame::GoAway(g) => format!("GOAWAY last={} code={} debug={:x}", u32::from(g.last_stream_id()), u32::from(g.reason()), fnv(g.debug_data())),
        Frame::WindowUpdate(w) => format!("WINDOW_UPDATE s={} inc={}", u32::from(w.stream_id()), w.size_increment()),
        Frame::Reset(r) => format!("RST s={} code={}", u32::from(r.stream_id()), u32::from(r.reason())),
    }
}

fn fnv(b: &[u8]) -> u64 {
    let mut h = crate::rng::Fnv::default();
    h.add(b);
    h.0
}

fn show(v: &[Field]) -> Vec<String> {
    v.iter().map(|(n, val)| format!("{}={:x}/{}", String::from_utf8_lossy(n), fnv(val), val.len())).collect()
}

/// Expected canonical form computed from the harness's own logical frame.
fn canon_ref(f: &wf::Frame) -> Option<String> {
    Some(match &f.body {
        wf::Body::Data { data, pad, .. } => format!("DATA s={} es={} padded={} payload={:x}", f.sid, f.end_stream(), pad.is_some(), fnv(data)),
        wf::Body::Headers { block, .. } => format!("HEADERS s={} es={} fields={:?}", f.sid, f.end_stream(), show(&regroup(&block.fields))),
        wf::Body::PushPromise { promised, block, .. } => format!("PUSH_PROMISE s={} p={} fields={:?}", f.sid, promised, show(&regroup(&block.fields))),
        wf::Body::Priority { .. } => return None, // compared loosely (Debug format of h2's type)
        wf::Body::Settings { ack, entries } => {
            let get = |id: u16| entries.iter().rev().find(|(i, _)| *i == id).map(|(_, v)| *v);
            format!("SETTINGS ack={} {:?}", ack, (get(1), get(2).map(|v| v != 0), get(3), get(4), get(5), get(6), get(8).map(|v| v != 0)))
        }
        wf::Body::Ping { ack, payload } => format!("PING ack={} {:?}", ack, payload),
        wf::Body::GoAway { last, code, debug } => format!("GOAWAY last={} code={} debug={:x}", last, code, fnv(debug)),
        wf::Body::WindowUpdate { inc } => format!("WINDOW_UPDATE s={} inc={}", f.sid, inc),
        wf::Body::Rst { code } => format!("RST s={} code={}", f.sid, code),
        wf::Body::Unknown => return None,
        wf::Body::Malformed(_) => return None,
    })
}

/// h2 hands out pseudo-headers first and the rest grouped by name in first-occurrence order.
fn regroup(fields: &[Field]) -> Vec<Field> {
    let order = [&b":method"[..], b":scheme", b":authority", b":path", b":protocol", b":status"];
    let mut v: Vec<Field> = Vec::new();
    for o in order {
        if let Some(f) = fields.iter().find(|(n, _)| n.as_slice() == o) {
            v.push(f.clone());
        }
    }
    let mut m = HeaderMap::new();
    for (n, val) in fields.iter().filter(|(n, _)| n.first() != Some(&b':')) {
        m.append(HeaderName::from_bytes(n).unwrap(), HeaderValue::from_bytes(val).unwrap());
    }
    for (n, val) in m.iter() {
        v.push((n.as_str().as_bytes().to_vec(), val.as_bytes().to_vec()));
    }
    v
}

fn parse_with(bytes: &[u8], rscript: Vec<usize>, max_recv: usize) -> (Vec<Result<String, String>>, u64) {
    let mut codec: Codec<ScriptIo, Bytes> = Codec::with_max_recv_frame_size(ScriptIo::new(vec![], rscript, bytes.to_vec(), false), max_recv);
    codec.set_max_recv_header_list_size(1 << 30);
    let wk = noop_waker();
    let mut cx = Context::from_waker(&wk);
    let mut out = Vec::new();
    let mut polls = 0u64;
    loop {
        match Pin::new(&mut codec).poll_next(&mut cx) {
            Poll::Ready(Some(Ok(f))) => out.push(Ok(canon(f))),
            Poll::Ready(Some(Err(e))) => {
                out.push(Err(format!("{:?}", e)));
                break;
            }
            Poll::Ready(None) => break,
            Poll::Pending => {
                polls += 1;
                if polls > 20_000_000 {
                    out.push(Err("never-completes".into()));
                    break;
                }
            }
        }
    }
    let calls = codec.get_ref().read_calls;
    (out, calls)
}

pub fn parse_case(seed: u64) -> CaseOut {
    let (bytes, max_recv, mut rng) = parse_case_gen(seed);
    parse_case_judge(seed, bytes, max_recv, &mut rng)
}

pub fn parse_case_bytes(seed: u64) -> Vec<u8> {
    parse_case_gen(seed).0
}

pub fn h2_decode_pub(dec: &mut h2::verif::Decoder, pieces: &[&[u8]]) -> Result<Vec<Field>, String> {
    h2_decode(dec, pieces)
}

fn parse_case_gen(seed: u64) -> (Vec<u8>, usize, Rng) {
    let mut rng = Rng::new(seed ^ 0x9a45e);
    let mut enc = RefEncoder::new(4096);
    let mut bytes = Vec::new();
    let n = rng.range(1, 14);
    let max_recv = *rng.pick(&[16_384usize, 16_384, 20_000, 65_536]);
    for _ in 0..n {
        let sid = *rng.pick(&[1u32, 3, 5, 7]);
        match rng.below(13) {
            0 | 1 => {
                let len = *rng.pick(&[0usize, 1, 100, 255, 256, 1024, 16_000, 16_384]).min(&max_recv);
                let pad = if rng.chance(1, 3) { Some(*rng.pick(&[0u8, 1, 100, 255])) } else { None };
                let len = if pad.is_some() { len.min(max_recv - 300) } else { len };
                wf::data(sid, &rng.bytes(len), rng.chance(1, 3), pad, &mut bytes);
            }
            2 | 3 | 4 => {
                let mut fields: Vec<Field> = if rng.chance(1, 2) {
                    vec![(b":method".to_vec(), rng.pick(&["GET", "POST", "PATCH"]).as_bytes().to_vec()), (b":scheme".to_vec(), b"https".to_vec()), (b":authority".to_vec(), b"vp.test".to_vec()), (b":path".to_vec(), b"/p?q".to_vec())]
                } else {
                    vec![(b":status".to_vec(), rng.pick(&["200", "404", "103"]).as_bytes().to_vec())]
                };
                let bigf = rng.below(6) == 0;
                for (n, v) in gen_hfields(&mut rng, bigf) {
                    fields.push((n.into_bytes(), v));
                }
                let mut blk = Vec::new();
                if rng.chance(1, 8) {
                    enc.size_update(*rng.pick(&[0usize, 100, 4096]), &mut blk);
                }
                for (n, v) in &fields {
                    let c = EncChoice { repr: rng.below(4) as u8, use_name_index: rng.chance(1, 2), huff_name: rng.chance(1, 2), huff_value: rng.chance(1, 2), int_pad: if rng.chance(1, 12) { 1 } else { 0 } };
                    enc.field(n, v, c, &mut blk);
                }
                let pad = if rng.chance(1, 4) { Some(rng.byte()) } else { None };
                let prio = if rng.chance(1, 4) { Some((rng.chance(1, 2), sid + 2, rng.byte())) } else { None };
                let (fm, cm) = if rng.chance(1, 2) { (rng.usize_below(40), 1 + rng.usize_below(200)) } else { (0, 0) };
                // (at most ~250 CONTINUATION frames: h2 bounds their number - 320 at a 64 KiB frame size - as a DoS defence;
                // more is refused with ENHANCE_YOUR_CALM by design, see C18)
                let cm = if cm == 0 { 0 } else { cm.max(blk.len() / 250 + 1) };
                if blk.len() + 300 < max_recv {
                    if rng.chance(1, 5) {
                        wf::push_promise(sid, 2 + 2 * rng.below(40) as u32, &blk, pad, fm, cm, &mut bytes);
                    } else {
                        wf::headers(sid, &blk, rng.chance(1, 2), pad, prio, fm, cm, &mut bytes);
                    }
                } else {
                    wf::headers(sid, &blk, rng.chance(1, 2), None, None, 1000, 1000, &mut bytes);
                }
            }
            5 => wf::priority(sid, rng.chance(1, 2), sid + 2, rng.byte(), &mut bytes),
            6 => wf::rst(sid, *rng.pick(&[0u32, 8, 0xffff_ffff]), &mut bytes),
            7 => {
                // known identifiers with legal values, unknown ones (incl. GREASE) anywhere, duplicates, any order
                let mut es: Vec<(u16, u32)> = Vec::new();
                for _ in 0..rng.range(0, 12) {
                    let e = match rng.below(10) {
                        0 => (1u16, *rng.pick(&[0u32, 100, 4096, 65_536])),
                        1 => (2, rng.below(2) as u32),
                        2 => (3, *rng.pick(&[0u32, 10, 0xffff_ffff])),
                        3 => (4, *rng.pick(&[0u32, 5, 70_000, 0x7fff_ffff])),
                        4 => (5, *rng.pick(&[16_384u32, 20_000, 0xff_ffff])),
                        5 => (6, *rng.pick(&[0u32, 1000, 0xffff_ffff])),
                        6 => (8, rng.below(2) as u32),
                        7 => (0x0a0a, rng.next_u64() as u32),
                        8 => (*rng.pick(&[0u16, 7, 9, 0x55, 0xffff]), rng.next_u64() as u32),
                        _ => (0x1a1a, 0),
                    };
                    es.push(e);
                }
                wf::settings(&es, &mut bytes);
            }
            8 => wf::settings_ack(&mut bytes),
            9 => {
                let fl = if rng.chance(1, 2) { 0 } else { 0xfe & !wf::F_ACK };
                wf::raw_frame(wf::T_PING, fl | if rng.chance(1, 2) { wf::F_ACK } else { 0 }, 0, &[rng.byte(); 8], &mut bytes);
            }
            10 => wf::goaway(rng.below(50) as u32, rng.below(14) as u32, &rng.bytes_upto(50), &mut bytes),
            11 => wf::window_update(*rng.pick(&[0u32, 1, 3]), *rng.pick(&[1u32, 0x7fff_ffff]), &mut bytes),
            _ => wf::raw_frame(*rng.pick(&[0x0au8, 0x40, 0xff]), rng.byte(), sid, &rng.bytes_upto(40), &mut bytes),
        }
    }
    (bytes, max_recv, rng)
}

fn parse_case_judge(seed: u64, bytes: Vec<u8>, max_recv: usize, rng: &mut Rng) -> CaseOut {
    let mut viol = Vec::new();
    let mut stats = Stats::default();
    let desc = serde_json::json!({"seed": seed, "family": "parse", "bytes": bytes.len(), "max_recv_frame_size": max_recv, "head_hex": bytes.iter().take(120).map(|b| format!("{:02x}", b)).collect::<String>()});
    // reference
    let mut rp = wf::FrameParser::new(false);
    let mut logical = Vec::new();
    rp.feed(&bytes, &mut logical);
    let want: Vec<Option<String>> = logical.iter().filter(|f| !matches!(f.body, wf::Body::Unknown)).map(canon_ref).collect();
    let (base, _) = parse_with(&bytes, vec![usize::MAX], max_recv);
    let mut fp = crate::rng::Fnv::default();
    for r in &base {
        fp.add(format!("{:?}", r).as_bytes());
    }
    if base.iter().any(|r| r.is_err()) {
        let at = base.iter().position(|r| r.is_err()).unwrap();
        viol.push(Violation::new("C12", "well-formed-frames-rejected", format!("after {} frames: {:?}; reference sees next: {:?}", at, base[at], logical.iter().filter(|f| !matches!(f.body, wf::Body::Unknown)).nth(at).map(|f| (f.short(), f.flags, f.parts.clone())))));
    } else if base.len() != want.len() {
        viol.push(Violation::new("C12", "parse-frame-count-mismatch", format!("h2 yields {} frames, reference {}: h2 {:?}", base.len(), want.len(), base.iter().map(|r| r.as_ref().unwrap().chars().take(30).collect::<String>()).collect::<Vec<_>>())));
    } else {
        for (i, (g, w)) in base.iter().zip(want.iter()).enumerate() {
            if let (Ok(g), Some(w)) = (g, w) {
                if g != w {
                    viol.push(Violation::new("C12", "parsed-value-differs-from-reference", format!("frame #{}: h2 `{}` reference `{}`", i, g.chars().take(300).collect::<String>(), w.chars().take(300).collect::<String>())));
                    break;
                }
            }
        }
    }
    let scripts: Vec<Vec<usize>> = vec![vec![1], vec![1, 0], vec![2], vec![9], vec![8, 0, 1], gen_script(rng), gen_script(rng), gen_script(rng)];
    for sc in scripts {
        let (got, calls) = parse_with(&bytes, sc.clone(), max_recv);
        stats.add("parse.read_calls", calls);
        if got != base {
            let first = got.iter().zip(base.iter()).position(|(a, b)| a != b).unwrap_or(got.len().min(base.len()));
            viol.push(Violation::new("C12", "read-chunking-changes-the-frames", format!("script {:?}: {} frames vs {} whole; first difference at #{}: {:?} vs {:?}", sc.iter().take(8).collect::<Vec<_>>(), got.len(), base.len(), first, got.get(first).map(|r| format!("{:?}", r).chars().take(200).collect::<String>()), base.get(first).map(|r| format!("{:?}", r).chars().take(200).collect::<String>()))));
            break;
        }
    }
    stats.add("parse.frames", base.len() as u64);
    stats.inc("nontrivial.C12");
    CaseOut { violations: viol, stats, fp: fp.0, nontrivial: true, desc }
}

/// Oversize: a frame announcing more than the advertised limit must be rejected with FRAME_SIZE_ERROR
/// before its body is supplied.
pub fn oversize_case(seed: u64) -> CaseOut {
    let mut rng = Rng::new(seed ^ 0x0e5);
    let max_recv = *rng.pick(&[16_384usize, 16_385, 20_000, 65_536]);
    let announced = max_recv + 1 + *rng.pick(&[0usize, 1, 1000, 1 << 20, (1 << 24) - 1 - max_recv - 1]);
    let announced = announced.min((1 << 24) - 1);
    let typ = *rng.pick(&[wf::T_DATA, wf::T_HEADERS, wf::T_SETTINGS, wf::T_GOAWAY, 0x77]);
    let mut bytes = Vec::new();
    wf::ping(false, [1; 8], &mut bytes);
    wf::frame_header(announced, typ, 0, if typ == wf::T_SETTINGS || typ == wf::T_GOAWAY { 0 } else { 1 }, &mut bytes);
    let head_end = bytes.len();
    bytes.extend(std::iter::repeat(0u8).take(64)); // a little of the body exists but is withheld
    let mut io = ScriptIo::new(vec![], gen_script(&mut rng), bytes, false);
    io.rlimit = head_end;
    io.eof_when_empty = false;
    let mut codec: Codec<ScriptIo, Bytes> = Codec::with_max_recv_frame_size(io, max_recv);
    let wk = noop_waker();
    let mut cx = Context::from_waker(&wk);
    let mut verdict = None;
    let mut frames = 0;
    for _ in 0..200_000 {
        match Pin::new(&mut codec).poll_next(&mut cx) {
            Poll::Ready(Some(Ok(_))) => frames += 1,
            Poll::Ready(Some(Err(e))) => {
                verdict = Some(format!("{:?}", e));
                break;
            }
            Poll::Ready(None) => {
                verdict = Some("eof".into());
                break;
            }
            Poll::Pending => {
                if codec.get_ref().rpos >= head_end {
                    // everything available was consumed and the codec waits for more: it is buffering
                    if codec.get_ref().read_calls > 10_000 {
                        break;
                    }
                }
            }
        }
    }
    let mut viol = Vec::new();
    let mut stats = Stats::default();
    stats.inc("oversize.cases");
    stats.inc("nontrivial.C12");
    let desc = serde_json::json!({"seed": seed, "family": "oversize", "max_recv_frame_size": max_recv, "announced": announced, "type": typ});
    match &verdict {
        Some(v) if v.contains("FRAME_SIZE_ERROR") => stats.inc("oversize.rejected_before_body"),
        other => viol.push(Violation::new("C12", "oversize-frame-not-rejected-before-body", format!("limit {} announced {} type {}: after the 9 header bytes the codec answered {:?} ({} frames before)", max_recv, announced, typ, other, frames))),
    }
    CaseOut { violations: viol, stats, fp: (announced as u64) << 8 | typ as u64, nontrivial: true, desc }
}

// ---------------------------------------------------------------------------------------
// C11: HPACK decoding
// ---------------------------------------------------------------------------------------

type H2Result = Result<Vec<Field>, String>;

/// Feed `pieces` to h2's decoder the way framed_read.rs does (resume after NeedMore while more fragments follow).
fn h2_decode(dec: &mut h2::verif::Decoder, pieces: &[&[u8]]) -> H2Result {
    let mut buf = BytesMut::new();
    let mut out: Vec<Field> = Vec::new();
    let n = pieces.len();
    for (i, p) in pieces.iter().enumerate() {
        buf.extend_from_slice(p);
        let last = i + 1 == n;
        let mut cur = std::io::Cursor::new(&mut buf);
        let r = dec.decode(&mut cur, |h| {
            out.push((h.name().as_slice().to_vec(), h.value_slice().to_vec()));
            std::ops::ControlFlow::Continue(())
        });
        match r {
            Ok(()) => {}
            Err(h2::verif::DecoderError::NeedMore(_)) if !last => {}
            Err(e) => return Err(format!("{:?}", e)),
        }
    }
    if !buf.is_empty() {
        // framed_read treats leftover bytes at END_HEADERS as an error through the NeedMore path above;
        // a non-empty buffer with Ok means the decoder stopped early
        return Err("leftover".into());
    }
    Ok(out)
}

fn in_safe_subset(fields: &[Field]) -> bool {
    fields.iter().all(|(n, v)| {
        let name_ok = if n.first() == Some(&b':') {
            match n.as_slice() {
                b":method" => !v.is_empty() && v.iter().all(|c| c.is_ascii_alphabetic()),
                b":status" => v.len() == 3 && v.iter().all(|c| c.is_ascii_digit()) && v[0] >= b'1' && v[0] <= b'9',
                b":scheme" | b":authority" | b":path" | b":protocol" => v.iter().all(|c| (0x21..0x7f).contains(c)),
                _ => false,
            }
        } else {
            !n.is_empty() && n.iter().all(|c| c.is_ascii_lowercase() || c.is_ascii_digit() || *c == b'-')
        };
        let value_ok = v.iter().all(|c| *c == b'\t' || (*c >= 0x20 && *c != 0x7f));
        name_ok && value_ok && n.len() < 5000 && v.len() < 60_000
    })
}

pub fn hpackdec_case(seed: u64) -> CaseOut {
    let mut rng = Rng::new(seed ^ 0xdec0de);
    let table_max = *rng.pick(&[4096usize, 4096, 0, 64, 150, 65_536]);
    let mut enc = RefEncoder::new(table_max.min(4096));
    let mut h2d = h2::verif::Decoder::new(table_max);
    let mut refd = RefDecoder::new(table_max);
    let mut viol = Vec::new();
    let mut stats = Stats::default();
    let mut fp = crate::rng::Fnv::default();
    let mut sample = Vec::new();
    let n_blocks = rng.range(1, 25);
    let mut nontrivial = false;
    for bi in 0..n_blocks {
        // --- build a block
        let mut blk = Vec::new();
        // most blocks are valid so that histories (and dynamic tables) grow; one in five carries a defect
        let kind = if rng.chance(1, 5) { rng.below(8) } else { 9 };
        let mut expect_invalid: Option<&'static str> = None;
        if rng.chance(1, 6) {
            let sz = *rng.pick(&[0usize, 31, 32, 33, 100, 4096]).min(&table_max);
            enc.size_update(sz, &mut blk);
            if rng.chance(1, 3) {
                let sz2 = *rng.pick(&[0usize, 64, 4096]).min(&table_max);
                enc.size_update(sz2, &mut blk);
            }
        }
        let mut fields: Vec<Field> = Vec::new();
        let mut padded_ints = false;
        let nf = rng.range(0, 12);
        for _ in 0..nf {
            let (n, v): (Vec<u8>, Vec<u8>) = match rng.below(8) {
                0 => {
                    let (n, v) = hr::STATIC_TABLE[rng.usize_below(61)];
                    (n.as_bytes().to_vec(), if v.is_empty() { b"x".to_vec() } else { v.as_bytes().to_vec() })
                }
                1 => (b":status".to_vec(), rng.pick(&["200", "404", "100", "999"]).as_bytes().to_vec()),
                2 => (b":method".to_vec(), rng.pick(&["GET", "POST", "FOO"]).as_bytes().to_vec()),
                _ => {
                    let (n, v) = gen_hfields(&mut rng, false).into_iter().next().unwrap_or(("x-a".into(), b"1".to_vec()));
                    (n.into_bytes(), v)
                }
            };
            let c = EncChoice { repr: rng.below(4) as u8, use_name_index: rng.chance(2, 3), huff_name: rng.chance(1, 2), huff_value: rng.chance(1, 2), int_pad: if rng.chance(1, 10) { rng.range(1, 3) as u8 } else { 0 } };
            if c.int_pad > 0 {
                // non-minimal integers may exceed h2's documented octet limit: outside the safe subset
                padded_ints = true;
            }
            enc.field(&n, &v, c, &mut blk);
            fields.push((n, v));
        }
        let saved_enc = enc.clone();
        match kind {
            0 => {
                blk.push(0x80);
                expect_invalid = Some("index-0");
            }
            1 => {
                hr::encode_int(62 + refd.table.entries.len() as u64 + rng.below(100) + 200, 7, 0x80, &mut blk);
                expect_invalid = Some("index-past-table");
            }
            2 if !fields.is_empty() => {
                hr::encode_int(rng.below(30), 5, 0x20, &mut blk);
                expect_invalid = Some("size-update-after-field");
            }
            3 => {
                let mut b2 = Vec::new();
                hr::encode_int(table_max as u64 + 1 + rng.below(1000), 5, 0x20, &mut b2);
                b2.extend_from_slice(&blk);
                // only invalid if it is the first thing in the block
                blk = b2;
                expect_invalid = Some("size-update-above-limit");
            }
            4 => {
                blk.extend_from_slice(&[0x00, 0x83, 0xff, 0xff, 0xff, 0x01, b'v']);
                expect_invalid = Some("huffman-long-padding-or-eos");
            }
            5 => {
                blk.extend_from_slice(&[0xff, 0x80, 0x80, 0x80, 0x80, 0x80, 0x80, 0x80, 0x80, 0x80, 0x80, 0x7f]);
                expect_invalid = Some("integer-overflow");
            }
            6 => {
                if blk.len() > 2 {
                    let cut = 1 + rng.usize_below(blk.len() - 1);
                    blk.truncate(cut);
                    expect_invalid = Some("maybe-truncated");
                }
            }
            7 => {
                // random mutation
                if !blk.is_empty() {
                    let i = rng.usize_below(blk.len());
                    blk[i] ^= 1 << rng.below(8);
                    expect_invalid = Some("maybe-mutated");
                }
            }
            _ => {}
        }
        // --- reference verdict (on a clone: an error leaves the real state untouched only if we stop)
        let mut ref_try = refd.clone();
        let rv = ref_try.decode(&blk, true, false);
        // --- h2 whole
        let whole = h2_decode(&mut h2d, &[&blk]);
        fp.add(&[whole.is_ok() as u8, rv.is_ok() as u8, (blk.len() & 0xff) as u8]);
        if sample.len() < 3 {
            sample.push(format!("block#{} {}B {:?} h2={} ref={}", bi, blk.len(), expect_invalid, whole.is_ok(), rv.is_ok()));
        }
        let hexblk = || blk.iter().take(64).map(|b| format!("{:02x}", b)).collect::<String>();
        match (&whole, &rv) {
            (Ok(got), Err(e)) => {
                viol.push(Violation::new("C11", format!("h2-accepts-block-the-rfc-rejects:{:?}", e).replace(' ', ""), format!("block #{} ({}; table max {}) hex {}: h2 returned {} fields, reference says {:?}", bi, expect_invalid.unwrap_or("valid-by-construction"), table_max, hexblk(), got.len(), e)));
                break;
            }
            (Ok(got), Ok(d)) => {
                if *got != d.fields {
                    viol.push(Violation::new("C11", "decoded-list-differs-from-rfc", format!("block #{} hex {}: h2 {:?} vs reference {:?}", bi, hexblk(), show(got), show(&d.fields))));
                    break;
                }
                stats.inc("hpackdec.blocks_agreed_ok");
                if d.stats.indexed_dynamic > 0 || d.stats.huffman_strings > 0 || d.stats.multi_octet_ints > 0 || !d.stats.size_updates.is_empty() {
                    nontrivial = true;
                }
                refd = ref_try;
                let (sz, mx, last) = h2d.verif_table_size();
                if sz > mx || mx > last.max(table_max) {
                    viol.push(Violation::new("C11", "dynamic-table-exceeds-limit", format!("after block #{}: size {} max {} limit {}", bi, sz, mx, last)));
                    break;
                }
                if sz != refd.table.size {
                    viol.push(Violation::new("C11", "dynamic-table-size-differs-from-rfc", format!("after block #{}: h2 table size {} reference {}", bi, sz, refd.table.size)));
                    break;
                }
            }
            (Err(e), Ok(d)) => {
                if in_safe_subset(&d.fields) && !padded_ints && expect_invalid.is_none() {
                    viol.push(Violation::new("C11", "h2-rejects-valid-block-in-safe-subset", format!("block #{} hex {}: h2 says {} but the reference decodes {:?}", bi, hexblk(), e, show(&d.fields))));
                    break;
                }
                stats.inc("hpackdec.h2_rejects_outside_safe_subset");
                // states have diverged (h2 may have processed part of the block): end this history
                nontrivial = true;
                break;
            }
            (Err(_), Err(_)) => {
                stats.inc("hpackdec.blocks_agreed_err");
                nontrivial = true;
                // --- split invariance on the error verdict as well, on fresh decoders below; the history ends
                break;
            }
        }
        // --- split invariance: replay the same block on clones in pieces
        if blk.len() >= 2 {
            let _ = saved_enc;
            // we need the decoder state *before* this block: rebuild by replaying is costly, so use the
            // invariant instead: decode a probe that references every dynamic entry after both runs.
        }
    }
    // dedicated split-invariance experiment on a fresh history (cheap and exact)
    if viol.is_empty() {
        if let Some(v) = split_invariance(&mut rng, &mut stats) {
            viol.push(v);
        }
    }
    stats.inc("hpackdec.histories");
    let desc = serde_json::json!({"seed": seed, "family": "hpackdec", "table_max": table_max, "blocks": sample});
    CaseOut { violations: viol, stats, fp: fp.0, nontrivial, desc }
}

/// The same block (valid or not) fed whole and in pieces to decoders with identical prior history must give the
/// same verdict, list and table.
fn split_invariance(rng: &mut Rng, stats: &mut Stats) -> Option<Violation> {
    let table_max = *rng.pick(&[4096usize, 100, 0]);
    let mut enc = RefEncoder::new(table_max);
    // history
    let mut history: Vec<Vec<u8>> = Vec::new();
    for _ in 0..rng.range(0, 4) {
        let mut b = Vec::new();
        for (n, v) in gen_hfields(rng, false) {
            enc.field(n.as_bytes(), &v, EncChoice { repr: 1, use_name_index: true, huff_name: false, huff_value: rng.chance(1, 2), int_pad: 0 }, &mut b);
        }
        history.push(b);
    }
    // the block under test
    let mut blk = Vec::new();
    if rng.chance(1, 4) {
        enc.size_update(*rng.pick(&[0usize, 50, 4096]).min(&table_max), &mut blk);
    }
    let mut fields = vec![(b":status".to_vec(), b"200".to_vec())];
    for (n, v) in gen_hfields(rng, false) {
        fields.push((n.into_bytes(), v));
    }
    for (n, v) in &fields {
        let c = EncChoice { repr: rng.below(4) as u8, use_name_index: rng.chance(1, 2), huff_name: rng.chance(1, 2), huff_value: rng.chance(1, 2), int_pad: 0 };
        enc.field(n, v, c, &mut blk);
    }
    match rng.below(5) {
        0 => {
            // a size update in the middle of the block: invalid however the block is split
            let at = 1.min(blk.len());
            let mut upd = Vec::new();
            hr::encode_int(0, 5, 0x20, &mut upd);
            for (k, x) in upd.into_iter().enumerate() {
                blk.insert(at + k, x);
            }
        }
        1 if !blk.is_empty() => {
            let i = rng.usize_below(blk.len());
            blk[i] ^= 1 << rng.below(8);
        }
        2 => {
            // a literal field with a zero-length name in front (HPACK can express it, HTTP/2 cannot use it): rejected,
            // and rejected wherever the block is cut - also right behind it
            let at = if blk.first().map_or(false, |b| b & 0xe0 == 0x20) { hr::decode_int(&blk, 5).map(|(_, n)| n).unwrap_or(0) } else { 0 };
            for (k, x) in [0x00u8, 0x00, 0x01, b'x'].into_iter().enumerate() {
                blk.insert(at + k, x);
            }
        }
        _ => {}
    }
    let fresh = |history: &[Vec<u8>]| {
        let mut d = h2::verif::Decoder::new(table_max);
        for h in history {
            let _ = h2_decode(&mut d, &[h]);
        }
        d
    };
    let mut d0 = fresh(&history);
    let whole = h2_decode(&mut d0, &[&blk]);
    let t0 = d0.verif_table_size();
    let offsets: Vec<usize> = if blk.len() <= 64 { (1..blk.len()).collect() } else { (0..16).map(|_| 1 + rng.usize_below(blk.len() - 1)).collect() };
    for off in offsets {
        stats.inc("hpackdec.splits_tried");
        let mut d1 = fresh(&history);
        let (a, b) = blk.split_at(off);
        let pieces: Vec<&[u8]> = if rng.chance(1, 3) && b.len() > 1 {
            let m = 1 + rng.usize_below(b.len() - 1);
            vec![a, &b[..m], &b[m..]]
        } else {
            vec![a, b]
        };
        let split = h2_decode(&mut d1, &pieces);
        let t1 = d1.verif_table_size();
        let same = match (&whole, &split) {
            (Ok(x), Ok(y)) => x == y && t0 == t1,
            (Err(_), Err(_)) => true,
            _ => false,
        };
        if !same {
            return Some(Violation::new(
                "C11",
                match &whole {
                    Err(e) => format!("split-block-accepted-although-whole-block-is-rejected:{}", e),
                    Ok(_) => "split-changes-decoding-result".to_string(),
                },
                format!("block hex {} split at {} (pieces {:?}): whole => {:?}, split => {:?}; table whole {:?} split {:?}", blk.iter().take(48).map(|b| format!("{:02x}", b)).collect::<String>(), off, pieces.iter().map(|p| p.len()).collect::<Vec<_>>(), whole.as_ref().map(|v| v.len()), split.as_ref().map(|v| v.len()), t0, t1),
            ));
        }
    }
    None
}

/// Exhaustive Huffman sub-space: every byte string of length <= `max_len` from `start..end` (index space).
pub fn huffman_range(max_len: usize, start: u64, end: u64) -> CaseOut {
    let mut viol = Vec::new();
    let mut stats = Stats::default();
    let mut i = start;
    let mut ok = 0u64;
    let mut err = 0u64;
    let mut scratch = BytesMut::new();
    while i < end {
        // index -> (length, value)
        let mut idx = i;
        let mut len = 0usize;
        let mut span = 1u64;
        loop {
            if idx < span {
                break;
            }
            idx -= span;
            len += 1;
            span *= 256;
            if len > max_len {
                break;
            }
        }
        if len > max_len {
            break;
        }
        let bytes: Vec<u8> = (0..len).map(|k| (idx >> (8 * (len - 1 - k))) as u8).collect();
        let r = hr::huff_decode(&bytes);
        // (h2 abandons a decoder after an error, so its scratch buffer never carries a failed string's prefix)
        scratch.clear();
        let h = h2::verif::huffman::decode(&bytes, &mut scratch).map(|b| b.to_vec());
        match (&h, &r) {
            (Ok(a), Ok(b)) if a == b => ok += 1,
            (Err(_), Err(_)) => err += 1,
            _ => {
                if viol.len() < 3 {
                    viol.push(Violation::new("C11", if h.is_ok() { "huffman-accepts-invalid-string" } else { "huffman-rejects-or-misdecodes-valid-string" }, format!("string {:02x?}: h2 {:?} reference {:?}", bytes, h.as_ref().map(|v| v.len()), r.as_ref().map(|v| v.len()))));
                }
            }
        }
        i += 1;
    }
    stats.add("huffman.exhaustive_strings", i - start);
    stats.add("huffman.valid", ok);
    stats.add("huffman.invalid", err);
    let desc = serde_json::json!({"family": "huffman-exhaustive", "max_len": max_len, "range": [start, end]});
    CaseOut { violations: viol, stats, fp: start ^ end, nontrivial: true, desc }
}

/// Sampled longer Huffman strings and encode/decode round trips.
pub fn huffman_case(seed: u64) -> CaseOut {
    let mut rng = Rng::new(seed ^ 0x40ff);
    let mut viol = Vec::new();
    let mut stats = Stats::default();
    let mut scratch = BytesMut::new();
    for _ in 0..200 {
        let n = rng.range(1, 40) as usize;
        let bytes = if rng.chance(1, 2) {
            // valid encoding of random text, sometimes damaged
            let text = rng.bytes(n);
            let mut e = Vec::new();
            hr::huff_encode(&text, &mut e);
            let mut dst = BytesMut::new();
            h2::verif::huffman::encode(&text, &mut dst);
            if dst[..] != e[..] {
                viol.push(Violation::new("C10", "huffman-encoding-differs-from-rfc", format!("text {:02x?}: h2 {:02x?} reference {:02x?}", text, &dst[..], e)));
            }
            if rng.chance(1, 3) {
                let i = rng.usize_below(e.len());
                e[i] ^= 1 << rng.below(8);
            }
            e
        } else {
            rng.bytes(n)
        };
        let r = hr::huff_decode(&bytes);
        // (h2 abandons a decoder after an error, so its scratch buffer never carries a failed string's prefix)
        scratch.clear();
        let h = h2::verif::huffman::decode(&bytes, &mut scratch).map(|b| b.to_vec());
        match (&h, &r) {
            (Ok(a), Ok(b)) if a == b => stats.inc("huffman.sampled_valid"),
            (Err(_), Err(_)) => stats.inc("huffman.sampled_invalid"),
            _ => viol.push(Violation::new("C11", if h.is_ok() { "huffman-accepts-invalid-string" } else { "huffman-rejects-or-misdecodes-valid-string" }, format!("string {:02x?}: h2 {:?} reference {:?}", bytes, h.as_ref().map(|v| v.len()), r.as_ref().map(|v| v.len())))),
        }
    }
    // prefix integers around h2's limit through the decoder: an indexed field with a huge index must fail, never wrap
    let desc = serde_json::json!({"seed": seed, "family": "huffman-sampled"});
    CaseOut { violations: viol, stats, fp: seed, nontrivial: true, desc }
}

#[allow(dead_code)]
fn _unused(_: &dyn Future<Output = ()>, _: &dyn Buf) {}
