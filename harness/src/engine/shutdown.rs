//! C15 raw family `shutdown`.
//!
//! E = server: the application calls graceful_shutdown() while streams are in flight and (often) while a user
//! PING of its own is unanswered; the scripted client answers the user PING, the shutdown PING and stray PING
//! acknowledgements in a PRNG-chosen order, opens further streams before and after the final GOAWAY, then lets
//! the in-flight streams finish. Judged: a final GOAWAY (last-stream-id below 2^31-1 and >= every accepted
//! stream) follows the shutdown PING's acknowledgement, every stream accepted before it completes, streams
//! opened after it are never handed to the application, and once everything has drained the endpoint closes
//! the transport and its connection future returns Ok.
//!
//! E = client: the scripted server sends GOAWAY(last, code, debug) with requests in flight below and above
//! `last`. Judged: requests at or below `last` complete, requests above fail with exactly the GOAWAY's code and
//! remote origin, no new stream is opened after the GOAWAY was read, a later send_request / ready fails, and
//! the connection future reports the peer's code and debug data (Ok for NO_ERROR).

use super::raw::{f, finish_raw, plain_spec, raw_client_app};
use super::rawpeer::RawPeer;
use super::sim::Outcome;
use crate::apps::actors::{send_cmd, server_main, ConnCmd, ConnCtlRef, Ctx};
use crate::apps::spec::{gen_profile, gen_sched, ConnOpKind, EpCfg, StreamSpec};
use crate::mon::snap::SnapHook;
use crate::mon::{self, Violation};
use crate::rng::Rng;
use crate::sim::pipe::DirProfile;
use crate::sim::{self, PipeEnd, PipeState, Sched, TaskKind};
use crate::trace::{EvK, Op, Phase, Res, Side};
use crate::wire::frame::*;
use std::cell::RefCell;
use std::rc::Rc;

#[derive(Debug, Clone)]
pub struct ShutdownScenario {
    pub seed: u64,
    pub e_server: bool,
    pub cfg: EpCfg,
    pub sched: Sched,
    pub prof: [DirProfile; 2],
    // --- E = server
    pub in_flight: usize,
    pub user_ping_first: bool,
    /// order in which the peer acknowledges: 'u' user ping, 's' shutdown ping, 'x' stray acknowledgement
    pub ack_order: Vec<char>,
    pub open_between: bool,
    pub open_after: bool,
    // --- E = client
    pub n_requests: usize,
    pub last_index: usize,
    pub code: u32,
    pub debug: Vec<u8>,
    pub second_goaway: bool,
}

pub fn gen_shutdown(seed: u64) -> ShutdownScenario {
    let mut rng = Rng::new(seed ^ 0x5d0_4e);
    let e_server = rng.chance(1, 2);
    let mut cfg = EpCfg::default();
    cfg.data_frame_budget = Some(1 << 40);
    if rng.chance(1, 3) {
        cfg.initial_window_size = Some(*rng.pick(&[1000u32, 20_000, 100_000]));
    }
    let user_ping_first = rng.chance(2, 3);
    let mut ack_order = vec!['s'];
    if user_ping_first {
        ack_order.insert(rng.usize_below(2), 'u');
    }
    for _ in 0..rng.below(3) {
        let i = rng.usize_below(ack_order.len() + 1);
        ack_order.insert(i, 'x');
    }
    let n_requests = rng.range(1, 5) as usize;
    ShutdownScenario {
        seed,
        e_server,
        cfg,
        sched: gen_sched(&mut rng),
        prof: [gen_profile(&mut rng), gen_profile(&mut rng)],
        in_flight: rng.range(0, 3) as usize,
        user_ping_first,
        ack_order,
        open_between: rng.chance(1, 2),
        open_after: rng.chance(1, 2),
        n_requests,
        last_index: rng.usize_below(n_requests + 1),
        code: *rng.pick(&[0u32, 0, 2, 11, 13, 0xdead_beef]),
        debug: if rng.chance(1, 2) { format!("dbg-{}", rng.below(1000)).into_bytes() } else { Vec::new() },
        second_goaway: rng.chance(1, 3),
    }
}

impl ShutdownScenario {
    pub fn to_json(&self) -> serde_json::Value {
        serde_json::json!({
            "seed": self.seed, "family": "shutdown", "e": if self.e_server { "server" } else { "client" }, "cfg": self.cfg.to_json(), "sched": format!("{:?}", self.sched),
            "in_flight": self.in_flight, "user_ping_first": self.user_ping_first, "ack_order": self.ack_order.iter().collect::<String>(), "open_between": self.open_between, "open_after": self.open_after,
            "n_requests": self.n_requests, "last_index": self.last_index, "code": self.code, "debug": String::from_utf8_lossy(&self.debug), "second_goaway": self.second_goaway,
            "prof": [format!("{:?}", self.prof[0]), format!("{:?}", self.prof[1])],
        })
    }
}

#[derive(Debug, Clone, Default)]
pub struct SdReport {
    pub reached: bool,
    pub before: Vec<u32>,
    pub between: Option<u32>,
    pub after: Option<u32>,
    pub final_goaway: Option<(u32, u32)>,
    pub eof_from_e: bool,
    pub t_goaway_sent: u64,
    pub goaway_last: u32,
    pub requests_seen: Vec<u32>,
}

// ---------------- E = server ----------------

async fn server_side_peer(mut p: RawPeer, sc: ShutdownScenario, ctl: ConnCtlRef, rep: Rc<RefCell<SdReport>>) {
    if !p.handshake(&[(S_INITIAL_WINDOW_SIZE, 1 << 20)]).await {
        return;
    }
    p.auto_pong = false;
    // streams in flight: complete requests whose handlers answer only when the gate opens (spec 4 of this family)
    let mut before = Vec::new();
    for _ in 0..sc.in_flight {
        let sid = p.alloc_sid();
        p.open_request(sid, "GET", "/in-flight", &[f("x-vp-id", "4")], true).await;
        before.push(sid);
    }
    // one that is served at once
    let w = p.alloc_sid();
    p.open_request(w, "GET", "/quick", &[f("x-vp-id", "5")], true).await;
    before.push(w);
    p.settle_world(10_000).await;
    if sc.user_ping_first {
        send_cmd(&ctl, ConnCmd::Op(ConnOpKind::Ping));
        if !p.until(|s| !s.e_pings.is_empty()).await {
            return;
        }
    }
    let pings_before = p.sh.e_pings.len();
    send_cmd(&ctl, ConnCmd::Op(ConnOpKind::GracefulShutdown));
    // GOAWAY(2^31-1) and the shutdown PING
    if !p.until(|s| s.e_pings.len() > pings_before && !s.e_goaways.is_empty()).await {
        return;
    }
    {
        let mut r = rep.borrow_mut();
        r.reached = true;
        r.before = before.clone();
    }
    if sc.open_between {
        let sid = p.alloc_sid();
        p.open_request(sid, "GET", "/between", &[f("x-vp-id", "5")], true).await;
        rep.borrow_mut().between = Some(sid);
        p.settle_world(10_000).await;
    }
    let user_payload = if sc.user_ping_first { Some(p.sh.e_pings[pings_before - 1]) } else { None };
    let shutdown_payload = p.sh.e_pings[p.sh.e_pings.len() - 1];
    for c in &sc.ack_order {
        let mut b = Vec::new();
        match c {
            'u' => {
                if let Some(pl) = user_payload {
                    ping(true, pl, &mut b);
                }
            }
            's' => ping(true, shutdown_payload, &mut b),
            _ => ping(true, *b"stray-pg", &mut b),
        }
        p.send(&b).await;
        if sc.seed % 2 == 0 {
            p.settle_world(10_000).await;
        }
    }
    p.settle_world(10_000).await;
    if let Some(g) = p.sh.e_goaways.iter().find(|g| g.0 != 0x7fff_ffff) {
        rep.borrow_mut().final_goaway = Some((g.0, g.1));
        if sc.open_after {
            let sid = p.alloc_sid();
            // a stream that crossed the final GOAWAY on the wire: its frames are to be ignored, and whatever the
            // client legally sends for it afterwards (it may cancel it, RFC 9113 6.8) is no error either
            let follow = sc.seed / 7 % 4;
            p.open_request(sid, if follow == 2 { "POST" } else { "GET" }, "/after", &[f("x-vp-id", "5")], follow != 2).await;
            rep.borrow_mut().after = Some(sid);
            let mut b = Vec::new();
            match follow {
                1 => rst(sid, 8, &mut b),
                2 => {
                    data(sid, b"late", false, None, &mut b);
                    p.sh.conn_window -= 4;
                    rst(sid, 8, &mut b);
                }
                3 => window_update(sid, 100, &mut b),
                _ => {}
            }
            if !b.is_empty() {
                p.send(&b).await;
            }
            p.settle_world(10_000).await;
        }
    }
    // let the in-flight handlers answer; the endpoint must then close by itself
    sim::open_gate();
    p.settle_world(10_000).await;
    rep.borrow_mut().eof_from_e = p.sh.eof_from_e;
    p.close();
    p.serve_forever().await;
}

fn server_specs() -> Vec<StreamSpec> {
    let mut hold = plain_spec(4, "GET", vec![], vec![5]);
    hold.respond_gate = true;
    let quick = plain_spec(5, "GET", vec![], vec![3]);
    vec![hold, quick]
}

// ---------------- E = client ----------------

async fn client_side_peer(mut p: RawPeer, sc: ShutdownScenario, rep: Rc<RefCell<SdReport>>) {
    if !p.handshake(&[(S_INITIAL_WINDOW_SIZE, 1 << 20), (S_MAX_CONCURRENT_STREAMS, 100)]).await {
        return;
    }
    let n = sc.n_requests;
    if !p.until(|s| s.opened_by_e.len() >= n).await {
        return;
    }
    // requests are complete (GET); wait until all of them have arrived entirely
    let ids: Vec<u32> = p.sh.opened_by_e[..n].to_vec();
    p.until(|s| ids.iter().all(|i| s.streams.get(i).map(|x| x.es || x.rst.is_some()).unwrap_or(false))).await;
    let last = if sc.last_index == 0 { 0 } else { ids[sc.last_index - 1] };
    let mut b = Vec::new();
    if sc.second_goaway {
        goaway(0x7fff_ffff, 0, b"", &mut b);
    }
    goaway(last, sc.code, &sc.debug, &mut b);
    let t = sim::log(0, EvK::Note(format!("shutdown: GOAWAY(last={}, code={}) sent with requests {:?} in flight", last, sc.code, ids)));
    p.send(&b).await;
    {
        let mut r = rep.borrow_mut();
        r.reached = true;
        r.t_goaway_sent = t;
        r.goaway_last = last;
        r.requests_seen = ids.clone();
    }
    p.settle_world(10_000).await;
    // answer what is at or below `last`
    for i in ids.iter().filter(|i| **i <= last) {
        p.respond(*i, 200, &[], true).await;
    }
    p.settle_world(10_000).await;
    sim::open_gate();
    p.settle_world(10_000).await;
    rep.borrow_mut().eof_from_e = p.sh.eof_from_e;
    p.close();
    p.serve_forever().await;
}

pub fn run_shutdown(sc: &ShutdownScenario) -> Outcome {
    sim::install(sc.seed, sc.sched);
    sim::with(|w| {
        w.gone_write_err = (0, 1);
        w.pipes.push(PipeState::new(0, sc.prof[0].clone(), sc.prof[1].clone()));
    });
    let ctl: ConnCtlRef = Default::default();
    let e = if sc.e_server { Side::Server } else { Side::Client };
    let hook = SnapHook::new(e, sc.cfg.conn_window());
    let rep: Rc<RefCell<SdReport>> = Default::default();
    if sc.e_server {
        sim::spawn("server-main", TaskKind::Conn, server_main(Ctx { conn: 0, side: Side::Server }, PipeEnd::new(0, Side::Server), sc.cfg.clone(), server_specs(), ctl.clone(), hook.clone(), None));
        sim::spawn("raw-peer", TaskKind::App, server_side_peer(RawPeer::new(0, Side::Client), sc.clone(), ctl.clone(), rep.clone()));
    } else {
        // requests 2.. are issued at once; one more (index 30) only when the gate opens, after the GOAWAY
        let mut specs: Vec<StreamSpec> = (0..sc.n_requests).map(|i| plain_spec(2 + i as u32, "GET", vec![], vec![])).collect();
        let mut late = plain_spec(30, "GET", vec![], vec![]);
        late.start_gate = true;
        specs.push(late);
        sim::spawn("client-app", TaskKind::App, raw_client_app(Ctx { conn: 0, side: Side::Client }, PipeEnd::new(0, Side::Client), sc.cfg.clone(), specs, ctl.clone(), hook.clone()));
        sim::spawn("raw-peer", TaskKind::App, client_side_peer(RawPeer::new(0, Side::Server), sc.clone(), rep.clone()));
    }
    let end = sim::run(4_000_000);
    let r = rep.borrow().clone();
    let scn = sc.clone();
    finish_raw(end, e, &[&hook], move |view, viol, stats, notes| {
        stats.inc(if scn.e_server { "shutdown.server_cases" } else { "shutdown.client_cases" });
        if !r.reached {
            stats.inc("shutdown.state_not_reached");
            return;
        }
        stats.inc("nontrivial");
        let mut conn_done: Option<Res> = None;
        let mut accepted: Vec<u32> = Vec::new();
        for (_ev, a) in mon::apis(view.evs()) {
            if a.side != e || a.phase != Phase::Ret {
                continue;
            }
            if a.op == Op::ConnDone {
                conn_done = Some(a.res.clone());
            }
            if a.op == Op::Accept && matches!(a.res, Res::Ok) {
                accepted.push(a.sid);
            }
        }
        if scn.e_server {
            notes.push(format!("server case: before {:?} between {:?} after {:?} final goaway {:?} eof {} accepted {:?} conn result {:?}", r.before, r.between, r.after, r.final_goaway, r.eof_from_e, accepted, conn_done));
            match r.final_goaway {
                None => viol.push(Violation::new("C15", "final-goaway-never-sent", format!("graceful_shutdown(): GOAWAY(2^31-1) and the shutdown PING were sent, the PING was acknowledged (acknowledgement order {:?}), yet no GOAWAY with the real last-stream-id followed", scn.ack_order))),
                Some((last, code)) => {
                    stats.inc("shutdown.final_goaway_seen");
                    if code != 0 {
                        viol.push(Violation::new("C15", "graceful-shutdown-goaway-carries-error", format!("final GOAWAY(last={}, code={})", last, code)));
                    }
                    for s in r.before.iter().chain(r.between.iter()) {
                        if accepted.contains(s) && *s > last {
                            viol.push(Violation::new("C15", "goaway-below-accepted-stream", format!("final GOAWAY last={} but stream {} had been handed to the application", last, s)));
                        }
                    }
                    if let Some(a) = r.after {
                        if accepted.contains(&a) {
                            viol.push(Violation::new("C15", "stream-accepted-after-final-goaway", format!("stream {} opened after GOAWAY(last={}) was handed to the application", a, last)));
                        }
                    }
                    // every accepted stream at or below `last` was answered completely
                    let dir = &view.w.pipes[0].dirs[1];
                    for s in accepted.iter().filter(|s| **s <= last) {
                        let done = dir.frames.iter().any(|fr| fr.sid == *s && fr.end_stream());
                        if !done {
                            viol.push(Violation::new("C15", "in-flight-stream-not-completed", format!("stream {} (<= last {}) was accepted but its response never completed", s, last)));
                        }
                    }
                    if !r.eof_from_e {
                        viol.push(Violation::new("C15", "connection-not-closed-after-drain", format!("every in-flight stream finished after GOAWAY(last={}), yet the endpoint did not close the transport", last)));
                    }
                    match &conn_done {
                        Some(Res::Ok) | Some(Res::End) => stats.inc("shutdown.server_conn_ok"),
                        other => viol.push(Violation::new("C15", "graceful-shutdown-result-not-ok", format!("connection result {:?}", other))),
                    }
                }
            }
        } else {
            let last = r.goaway_last;
            notes.push(format!("client case: requests {:?} last {} code {} debug {:?} conn result {:?}", r.requests_seen, last, scn.code, String::from_utf8_lossy(&scn.debug), conn_done));
            // outcome of each request
            for (_ev, a) in mon::apis(view.evs()) {
                if a.side != Side::Client || a.phase != Phase::Ret || a.sid == 0 {
                    continue;
                }
                if a.op == Op::Response && r.requests_seen.contains(&a.sid) {
                    if a.sid <= last {
                        stats.inc("shutdown.requests_below_last");
                        if !matches!(a.res, Res::Ok) {
                            viol.push(Violation::new("C15", "request-below-goaway-not-completed", format!("request on stream {} (<= last {}) was answered after the GOAWAY, yet its response future returned {:?}", a.sid, last, a.res)));
                        }
                    } else {
                        stats.inc("shutdown.requests_above_last");
                        match &a.res {
                            Res::Err(info) if info.reason == Some(scn.code) && info.is_remote && info.is_go_away => {}
                            other => viol.push(Violation::new("C15", "request-above-goaway-not-failed-with-peers-reason", format!("request on stream {} (> last {}) after GOAWAY(code {}): response future returned {:?}", a.sid, last, scn.code, other))),
                        }
                    }
                }
            }
            // no new stream on the wire after the GOAWAY was read
            let dir = &view.w.pipes[0].dirs[0];
            let peer_dir = &view.w.pipes[0].dirs[1];
            let t_read = peer_dir.frames.iter().enumerate().filter(|(_, fr)| matches!(fr.body, Body::GoAway { .. })).map(|(i, _)| peer_dir.t_read[i]).filter(|t| *t != 0).min();
            if let Some(tr) = t_read {
                for (i, fr) in dir.frames.iter().enumerate() {
                    if matches!(fr.body, Body::Headers { .. }) && !r.requests_seen.contains(&fr.sid) && dir.t_written[i] > tr + 0 {
                        // (a frame already inside the endpoint's write buffer when the GOAWAY was read may still leave)
                        let first_of_stream = dir.frames.iter().position(|x| x.sid == fr.sid) == Some(i);
                        if first_of_stream {
                            viol.push(Violation::new("C15", "new-stream-started-after-goaway-received", format!("HEADERS opening stream {} written at t={} after GOAWAY was read at t={}", fr.sid, dir.t_written[i], tr)));
                        }
                    }
                }
                // the late request of the application must have been refused by the API
                let late_ok = mon::apis(view.evs()).any(|(ev, a)| a.side == Side::Client && a.tag == 30 && a.phase == Phase::Ret && ev.t > tr && (matches!(a.op, Op::Ready | Op::SendRequest) && matches!(a.res, Res::Err(_))));
                let late_sent = mon::apis(view.evs()).any(|(_, a)| a.side == Side::Client && a.tag == 30 && a.phase == Phase::Ret && a.op == Op::SendRequest && matches!(a.res, Res::Ok));
                if late_sent && !late_ok {
                    stats.inc("shutdown.late_request_accepted_by_api");
                }
            }
            // the connection's result reports the peer's code and debug data
            match (&conn_done, scn.code) {
                (Some(Res::Ok), 0) | (Some(Res::End), 0) => stats.inc("shutdown.client_conn_ok"),
                (Some(Res::Err(info)), c) if c != 0 => {
                    stats.inc("shutdown.client_conn_err_compared");
                    let dbg = String::from_utf8_lossy(&scn.debug).to_string();
                    if info.reason != Some(c) || !info.is_remote || !info.is_go_away || (!dbg.is_empty() && !info.display.contains(&dbg)) {
                        viol.push(Violation::new("C15", "connection-result-does-not-report-peers-goaway", format!("peer sent GOAWAY(code={}, debug={:?}); the connection future returned reason {:?} remote={} go_away={} display {:?}", c, dbg, info.reason, info.is_remote, info.is_go_away, info.display)));
                    }
                }
                (other, c) => viol.push(Violation::new("C15", "connection-result-does-not-report-peers-goaway", format!("peer sent GOAWAY(code={}); connection future returned {:?}", c, other))),
            }
        }
    })
}
