//! Engine `sim`: h2 client ↔ h2 server inside the deterministic world.

use crate::apps::actors::*;
use crate::apps::spec::*;
use crate::mon::snap::SnapHook;
use crate::mon::{self, Stats, View, Violation};
use crate::sim::{self, PipeEnd, PipeState, RunEnd, TaskKind};
use crate::trace::{ErrInfo, EvK, Op, Phase, Res, Side};
use h2::client;
use std::cell::RefCell;
use std::collections::BTreeMap;
use std::panic::{catch_unwind, AssertUnwindSafe};
use std::rc::Rc;

pub struct Outcome {
    pub violations: Vec<Violation>,
    pub notes: Vec<String>,
    pub stats: Stats,
    pub fp: u64,
    pub nontrivial: BTreeMap<&'static str, bool>,
    pub quiescent: bool,
    pub steps_exhausted: bool,
    pub trace_tail: Vec<String>,
}

type Keeper = Rc<RefCell<Option<client::SendRequest<crate::apps::actors::BodyBuf>>>>;

fn log_api(conn: u8, side: Side, op: Op, phase: Phase, op_id: u32, res: Res) {
    sim::log(
        conn,
        EvK::Api(Box::new(crate::trace::Api {
            side,
            tag: 0,
            sid: 0,
            op,
            phase,
            op_id,
            a: 0,
            b: 0,
            flag: false,
            res,
            msg: None,
        })),
    );
}

#[allow(clippy::too_many_arguments)]
async fn client_main(ctx: Ctx, io: PipeEnd, sc: Rc<Scenario>, ctl: ConnCtlRef, server_ctl: ConnCtlRef, hooks: SnapHook, keeper: Keeper, keep: bool) {
    let id = sim::with(|w| w.trace.next_op_id());
    log_api(ctx.conn, ctx.side, Op::Handshake, Phase::Call, id, Res::None);
    let r = client_builder(&sc.client).handshake::<_, crate::apps::actors::BodyBuf>(io).await;
    let (sr, conn) = match r {
        Ok(x) => {
            log_api(ctx.conn, ctx.side, Op::Handshake, Phase::Ret, id, Res::Ok);
            x
        }
        Err(e) => {
            log_api(ctx.conn, ctx.side, Op::Handshake, Phase::Ret, id, Res::Err(Box::new(ErrInfo::from(&e))));
            ctl.borrow_mut().done = true;
            return;
        }
    };
    sim::spawn("client-conn", TaskKind::Conn, client_conn_task(ctx.clone(), conn, ctl.clone(), hooks));
    let done = Rc::new(RefCell::new(0u32));
    let pooled = sc.ending.is_none() && sc.n_clones > 0 && sc.seed % 2 == 0;
    for c in 0..sc.n_clones {
        let specs: Vec<StreamSpec> = sc.streams.iter().filter(|s| s.via_clone == c).cloned().collect();
        // a kept connection (second wave on the same connection) is kept through the handle of the first
        // requester, which made - and at a concurrency limit queued - requests itself
        let give_back = if keep && pooled && c == 0 { Some(keeper.clone()) } else { None };
        sim::spawn(format!("client-req-{}", c), TaskKind::App, client_requester(ctx.clone(), sr.clone(), specs, done.clone(), give_back));
    }
    sim::spawn("controller", TaskKind::App, controller(sc.conn_ops.clone(), ctl.clone(), server_ctl));
    if keep && !pooled {
        *keeper.borrow_mut() = Some(sr);
    } else {
        drop(sr);
    }
}

/// Outstanding operations; `stream_only` ignores the connection-lifetime ones (connection future, accept loop).
fn pending_ops_of(stream_only: bool) -> usize {
    sim::with(|w| {
        let mut open = std::collections::BTreeSet::new();
        for e in &w.trace.evs {
            if let EvK::Api(a) = &e.k {
                if stream_only && matches!(a.op, Op::ConnDone | Op::Accept) {
                    continue;
                }
                if a.op_id != 0 {
                    match a.phase {
                        Phase::Call => {
                            open.insert(a.op_id);
                        }
                        Phase::Ret => {
                            open.remove(&a.op_id);
                        }
                    }
                }
            }
        }
        open.len()
    })
}

/// every application task ran to completion, i.e. every stream handle has been dropped
fn all_app_tasks_done() -> bool {
    sim::with(|w| w.tasks.iter().all(|t| t.done || t.kind == TaskKind::Conn))
}

fn pending_ops(_from: usize) -> usize {
    pending_ops_of(false)
}

/// C19: at a quiescent point with every stream finished and all stream handles dropped.
fn check_forgotten(side: Side, hook: &SnapHook, expect_refs: Option<usize>, out: &mut Vec<Violation>, stats: &mut Stats) {
    let st = hook.0.borrow();
    let s = match &st.last {
        Some(s) => s,
        None => return,
    };
    stats.inc("forget_checks");
    let retained: Vec<_> = s.streams.iter().filter(|x| !x.is_pending_reset_expiration).collect();
    if !retained.is_empty() {
        out.push(Violation::new(
            "C19",
            "stream-retained-after-close-and-drop",
            format!("{}: {} stream records retained outside the reset memory: {:?}", side.name(), retained.len(), retained.iter().map(|x| format!("stream {} {} refs={} counted={} queues[accept={} send={} send_capacity={} open={} push={} window_update={}] pending_send_empty={} pending_recv_empty={} in_flight_recv={}", x.id, x.state, x.ref_count, x.is_counted, x.is_pending_accept, x.is_pending_send, x.is_pending_send_capacity, x.is_pending_open, x.is_pending_push, x.is_pending_window_update, x.pending_send_empty, x.pending_recv_empty, x.in_flight_recv_data)).collect::<Vec<_>>()),
        ));
    }
    let in_reset_memory = s.streams.len() - retained.len();
    if in_reset_memory > s.counts.max_local_reset_streams {
        out.push(Violation::new("C19", "reset-memory-exceeds-limit", format!("{}: {} > {}", side.name(), in_reset_memory, s.counts.max_local_reset_streams)));
    }
    if in_reset_memory > 0 {
        stats.inc("forget_checks_with_reset_memory");
    }
    if s.recv.buffer_len != 0 {
        out.push(Violation::new("C19", "recv-buffer-not-empty-when-idle", format!("{}: {} buffered receive events", side.name(), s.recv.buffer_len)));
    }
    if s.send_buffer_len != 0 {
        out.push(Violation::new("C19", "send-buffer-not-empty-when-idle", format!("{}: {} buffered send frames", side.name(), s.send_buffer_len)));
    }
    if s.counts.num_send_streams != 0 || s.counts.num_recv_streams != 0 {
        out.push(Violation::new("C19", "stream-counts-not-idle", format!("{}: num_send_streams={} num_recv_streams={}", side.name(), s.counts.num_send_streams, s.counts.num_recv_streams)));
    }
    if s.send.conn_window >= 0 && s.send.conn_available != s.send.conn_window {
        out.push(Violation::new("C19", "send-capacity-not-returned-when-idle", format!("{}: conn available={} window={}", side.name(), s.send.conn_available, s.send.conn_window)));
    }
    if s.recv.in_flight_data != 0 {
        out.push(Violation::new("C19", "recv-in-flight-not-zero-when-idle", format!("{}: in_flight_data={}", side.name(), s.recv.in_flight_data)));
    }
    if !s.send.pending_send_empty || !s.send.pending_capacity_empty || !s.send.pending_open_empty || !s.recv.pending_accept_empty || !s.recv.pending_window_updates_empty {
        out.push(Violation::new(
            "C19",
            "queues-not-empty-when-idle",
            format!("{}: pending_send_empty={} pending_capacity_empty={} pending_open_empty={} pending_accept_empty={} pending_window_updates_empty={}", side.name(), s.send.pending_send_empty, s.send.pending_capacity_empty, s.send.pending_open_empty, s.recv.pending_accept_empty, s.recv.pending_window_updates_empty),
        ));
    }
    if let Some(r) = expect_refs {
        if s.refs != r {
            out.push(Violation::new("C19", "connection-refs-not-idle", format!("{}: refs={} expected {}", side.name(), s.refs, r)));
        }
    }
}

pub fn run_scenario(sc: &Scenario) -> Outcome {
    let sc = Rc::new(sc.clone());
    sim::install(sc.seed, sc.sched);
    sim::with(|w| {
        w.inject_prob = (sc.inject.0, sc.inject.1);
        w.inject_max = sc.inject.2;
        // cooperative worlds close politely: bytes written to a departed peer vanish instead of failing
        w.gone_write_err = if sc.coop { (0, 1) } else { (1, 2) };
        let mut p = PipeState::new(0, sc.prof[0].clone(), sc.prof[1].clone());
        for f in &sc.faults {
            p.dirs[f.dir].fault = Some(*f);
        }
        w.pipes.push(p);
    });
    let client_ctl: ConnCtlRef = Default::default();
    let server_ctl: ConnCtlRef = Default::default();
    let chook = SnapHook::new(Side::Client, sc.client.conn_window());
    let shook = SnapHook::new(Side::Server, sc.server.conn_window());
    let keeper: Keeper = Rc::new(RefCell::new(None));
    let keep = !sc.second_wave.is_empty() || sc.ending.is_some();
    if sc.ending.is_some() {
        // (Keeping a *completed* connection object alive was tried: on the unchanged tree ping and stream handles
        // then wait until the object is dropped for several ending kinds - h2 finishes its streams in Drop. That is
        // recorded as a by-design observation in DESIGN.md 9.3 and not generated: VH_KEEP_CONN=1 turns it on.)
        if std::env::var("VH_KEEP_CONN").is_ok() {
            client_ctl.borrow_mut().keep_conn = sc.seed & 8 != 0;
            server_ctl.borrow_mut().keep_conn = sc.seed & 16 != 0;
        }
    }
    let cctx = Ctx { conn: 0, side: Side::Client };
    let sctx = Ctx { conn: 0, side: Side::Server };
    let all_specs: Vec<StreamSpec> = sc.streams.iter().chain(sc.second_wave.iter()).cloned().collect();
    sim::spawn(
        "server-main",
        TaskKind::Conn,
        server_main(sctx.clone(), PipeEnd::new(0, Side::Server), sc.server.clone(), all_specs, server_ctl.clone(), shook.clone(), sc.server_accept_limit),
    );
    sim::spawn(
        "client-main",
        TaskKind::App,
        client_main(cctx.clone(), PipeEnd::new(0, Side::Client), sc.clone(), client_ctl.clone(), server_ctl.clone(), chook.clone(), keeper.clone(), keep),
    );

    let mut extra_viol: Vec<Violation> = Vec::new();
    let mut stats = Stats::default();
    let mut notes = Vec::new();
    let mut end;
    let mut t_ending: Option<u64> = None;
    if let Some(en) = sc.ending {
        // ---- C07: run up to the crash point, end the connection, run on, then probe the handles
        end = sim::run(en.at_step.max(1));
        if end == RunEnd::Budget {
            t_ending = Some(sim::log(0, EvK::Note(format!("ending {:?} applied at step {}", en.kind, en.at_step))));
            stats.inc(&format!("ending.{}", match en.kind { EndKind::AbruptShutdown(_) => "AbruptShutdown".to_string(), k => format!("{:?}", k) }));
            match en.kind {
                EndKind::CutEof | EndKind::CutReset => {
                    let k = if en.kind == EndKind::CutEof { sim::FaultKind::CutEof } else { sim::FaultKind::CutReset };
                    let wakers: Vec<_> = sim::with(|w| {
                        let sim::World { pipes, trace, .. } = w;
                        (0..2).filter_map(|d| pipes[0].force_fault(d, k, trace)).collect()
                    });
                    for w in wakers {
                        w.wake();
                    }
                }
                EndKind::DropClientConn => send_cmd(&client_ctl, ConnCmd::Op(ConnOpKind::DropConn)),
                EndKind::DropServerConn => send_cmd(&server_ctl, ConnCmd::Op(ConnOpKind::DropConn)),
                EndKind::AbruptShutdown(c) => send_cmd(&server_ctl, ConnCmd::Op(ConnOpKind::AbruptShutdown(c))),
                EndKind::GracefulShutdown => send_cmd(&server_ctl, ConnCmd::Op(ConnOpKind::GracefulShutdown)),
            }
            end = sim::run(sc.max_steps);
            // probe phase: a fresh request and a ping on the handles that are still alive
            if end == RunEnd::Quiescent {
                let sr = keeper.borrow().as_ref().cloned();
                if let Some(sr) = sr {
                    let mut probe = sc.streams[0].clone();
                    probe.idx = 900;
                    probe.pushes.clear();
                    probe.start_delay = 0;
                    probe.client_cancel_after = None;
                    stats.inc("probe_requests");
                    let done = Rc::new(RefCell::new(0u32));
                    sim::spawn("client-probe", TaskKind::App, client_requester(cctx.clone(), sr, vec![probe], done, None));
                }
                // a ping on each side: through the connection task while it lives, directly on the ping handle once
                // the connection task has ended (the handle outlives the connection: "subsequent operations ... ping")
                for (ctl, ctx) in [(&client_ctl, &cctx), (&server_ctl, &sctx)] {
                    if !ctl.borrow().done {
                        send_cmd(ctl, ConnCmd::Op(ConnOpKind::Ping));
                    } else if let Some(pp) = ctl.borrow().pp.clone() {
                        stats.inc("probe_pings_on_ended_connection");
                        sim::spawn("probe-ping", TaskKind::App, crate::apps::actors::handle_ping(ctx.clone(), pp));
                    }
                }
                end = sim::run(sc.max_steps);
            }
        } else {
            stats.inc("ending.after_natural_end");
        }
        let k = keeper.borrow_mut().take();
        if let Some(k) = k {
            let _ = catch_unwind(AssertUnwindSafe(move || drop(k)));
        }
        if end == RunEnd::Quiescent {
            end = sim::run(sc.max_steps);
        }
    } else {
        end = sim::run(sc.max_steps);
    }
    let keep = keep && sc.ending.is_none();

    // ---- C19: mid-scenario quiescence with the connection alive, then a second wave
    if keep && end == RunEnd::Quiescent {
        let alive = !client_ctl.borrow().done && !server_ctl.borrow().done && keeper.borrow().is_some();
        if alive && pending_ops_of(true) == 0 && all_app_tasks_done() {
            // refresh snapshots: one more poll of both connection tasks
            send_cmd(&client_ctl, ConnCmd::Op(ConnOpKind::Nop));
            send_cmd(&server_ctl, ConnCmd::Op(ConnOpKind::Nop));
            end = sim::run(sc.max_steps);
            if end == RunEnd::Quiescent && !client_ctl.borrow().done && !server_ctl.borrow().done {
                check_forgotten(Side::Client, &chook, Some(2), &mut extra_viol, &mut stats);
                check_forgotten(Side::Server, &shook, Some(1), &mut extra_viol, &mut stats);
                if sc.coop {
                    // keep-alive pings on the idle connection: a back-to-back series from each side, with
                    // nothing else giving the connection tasks a reason to run
                    send_cmd(&client_ctl, ConnCmd::Op(ConnOpKind::Ping));
                    send_cmd(&server_ctl, ConnCmd::Op(ConnOpKind::Ping));
                    end = sim::run(sc.max_steps);
                    stats.inc("idle_ping_phases");
                    if end == RunEnd::Quiescent && !client_ctl.borrow().done && !server_ctl.borrow().done {
                        let stuck = pending_ops_of(true);
                        if stuck > 0 {
                            extra_viol.push(Violation::new(
                                "C06",
                                "user-ping-pending-at-quiescence-on-idle-connection",
                                format!("{} ping operation(s) still pending after the world went quiet with both connections alive and idle", stuck),
                            ));
                        }
                    }
                }
                // second wave on the same connection (recycled slab slots)
                let sr = keeper.borrow().as_ref().unwrap().clone();
                let done = Rc::new(RefCell::new(0u32));
                sim::spawn("client-req-wave2", TaskKind::App, client_requester(cctx.clone(), sr, sc.second_wave.clone(), done, None));
                end = sim::run(sc.max_steps);
                if end == RunEnd::Quiescent && !client_ctl.borrow().done && !server_ctl.borrow().done && pending_ops_of(true) == 0 && all_app_tasks_done() {
                    send_cmd(&client_ctl, ConnCmd::Op(ConnOpKind::Nop));
                    send_cmd(&server_ctl, ConnCmd::Op(ConnOpKind::Nop));
                    end = sim::run(sc.max_steps);
                    if end == RunEnd::Quiescent && !client_ctl.borrow().done && !server_ctl.borrow().done {
                        check_forgotten(Side::Client, &chook, Some(2), &mut extra_viol, &mut stats);
                        check_forgotten(Side::Server, &shook, Some(1), &mut extra_viol, &mut stats);
                        stats.inc("second_wave_completed");
                    }
                }
            }
        } else {
            stats.inc("forget_mid_check_skipped");
        }
        // now let the client go idle
        let k = keeper.borrow_mut().take();
        if let Some(k) = k {
            let id = sim::with(|w| w.trace.next_op_id());
            log_api(0, Side::Client, Op::DropSendRequest, Phase::Call, id, Res::None);
            if let Err(p) = catch_unwind(AssertUnwindSafe(move || drop(k))) {
                let msg = if let Some(s) = p.downcast_ref::<&str>() { s.to_string() } else if let Some(s) = p.downcast_ref::<String>() { s.clone() } else { "?".into() };
                sim::with(|w| w.stats.panics.push(format!("drop of last SendRequest: {}", msg)));
            }
            log_api(0, Side::Client, Op::DropSendRequest, Phase::Ret, id, Res::Ok);
        }
        if end == RunEnd::Quiescent {
            end = sim::run(sc.max_steps);
        }
    }
    let quiescent = end == RunEnd::Quiescent;
    let limit = sim::events_len();

    // ---- triage of stalls under a liberal executor (not a verdict)
    let pend = pending_ops(0);
    if quiescent {
        // the state both endpoints went to sleep in is judged by the snapshot monitors (C03: no credit owed)
        chook.probe_quiescent();
        shook.probe_quiescent();
        if pend == 0 {
            sim::wake_all();
            let _ = sim::run(200_000);
        }
    }
    if quiescent && pend > 0 {
        // diagnostics of the state the world went quiescent in (before the liberal re-run changes it)
        sim::with(|w| {
            for d in 0..2 {
                notes.push(format!("pipe dir {}: {}", d, w.pipes[0].dirs[d].debug_state()));
            }
            for t in &w.tasks {
                if !t.done {
                    notes.push(format!("task not finished: {} (polls {})", t.name, t.polls));
                }
            }
        });
        for (hook, name) in [(&chook, "client"), (&shook, "server")] {
            if let Some(s) = &hook.0.borrow().last {
                notes.push(format!(
                    "h2 state {}: send conn window={} available={} | recv conn window={} available={} in_flight={} | queues: pending_send_empty={} pending_capacity_empty={} pending_open_empty={} pending_wu_empty={} | has_task={} err={:?} | counts: send {}/{} recv {}/{} local_reset {}/{} slab={} ids={}",
                    name, s.send.conn_window, s.send.conn_available, s.recv.conn_window, s.recv.conn_available, s.recv.in_flight_data,
                    s.send.pending_send_empty, s.send.pending_capacity_empty, s.send.pending_open_empty, s.recv.pending_window_updates_empty, s.has_task, s.conn_error,
                    s.counts.num_send_streams, s.counts.max_send_streams, s.counts.num_recv_streams, s.counts.max_recv_streams, s.counts.num_local_reset_streams, s.counts.max_local_reset_streams, s.slab_len, s.ids_len
                ));
                for x in &s.streams {
                    notes.push(format!(
                        "  stream {} {} refs={} counted={} send(win={} avail={} req={} buf={} inc={}) recv(win={} avail={} in_flight={} is_recv={}) q(send={} cap={} open={} wu={} accept={}) tasks(send={} recv={} push={}) pending_send_empty={} pending_recv_empty={}",
                        x.id, x.state, x.ref_count, x.is_counted, x.send_window, x.send_available, x.requested_send_capacity, x.buffered_send_data, x.send_capacity_inc,
                        x.recv_window, x.recv_available, x.in_flight_recv_data, x.is_recv,
                        x.is_pending_send, x.is_pending_send_capacity, x.is_pending_open, x.is_pending_window_update, x.is_pending_accept,
                        x.has_send_task, x.has_recv_task, x.has_push_task, x.pending_send_empty, x.pending_recv_empty
                    ));
                }
            }
        }
        if sc.coop {
            // C16 "every wait for capacity is woken when capacity arrives": poll the parked capacity waiters once
            // more by hand (application tasks only). A wait that now returns capacity, before the connection of its
            // side has run again, had its capacity all along - nobody told it.
            let waiting: Vec<(u32, Side, u32)> = sim::with(|w| {
                let mut open = std::collections::BTreeMap::new();
                for e in &w.trace.evs {
                    if let EvK::Api(a) = &e.k {
                        if a.op == Op::PollCapacity && a.op_id != 0 {
                            match a.phase {
                                Phase::Call => {
                                    open.insert(a.op_id, (a.side, a.sid));
                                }
                                Phase::Ret => {
                                    open.remove(&a.op_id);
                                }
                            }
                        }
                    }
                }
                open.into_iter().map(|(id, (side, sid))| (id, side, sid)).collect()
            });
            if !waiting.is_empty() {
                stats.add("c16.capacity_waits_pending_at_quiescence", waiting.len() as u64);
                let from = sim::events_len();
                sim::wake_app_tasks();
                let _ = sim::run(200_000);
                sim::with(|w| {
                    let mut conn_ran = [false, false];
                    for e in &w.trace.evs[from..] {
                        match &e.k {
                            EvK::ConnPoll { side, begin: true } => conn_ran[side.wdir()] = true,
                            EvK::Api(a) if a.op == Op::PollCapacity && a.phase == Phase::Ret => {
                                if let Some((_, side, sid)) = waiting.iter().find(|(id, _, _)| *id == a.op_id) {
                                    if let Res::Val(n) = a.res {
                                        if n > 0 && !conn_ran[side.wdir()] {
                                            extra_viol.push(Violation::new(
                                                "C16",
                                                "capacity-wait-not-woken-although-capacity-had-arrived",
                                                format!("{} stream {}: poll_capacity was parked when the world went quiet; polled again by hand it returned {} bytes at once, before its connection ran", side.name(), sid, n),
                                            ));
                                        }
                                    }
                                }
                            }
                            _ => {}
                        }
                    }
                });
            }
        }
        sim::wake_all();
        let _ = sim::run(200_000);
        let after = pending_ops(0);
        notes.push(format!("triage: {} operations pending at quiescence; after waking every task once: {} ({})", pend, after, if after < pend { "lost wakeup suspected" } else { "accounting stall" }));
        stats.inc(if after < pend { "triage.lost_wakeup" } else { "triage.stall" });
    }

    let w = sim::uninstall();
    let mut violations = Vec::new();
    let mut fp = crate::rng::Fnv::default();
    {
        let view = View { w: &w, conn: 0, limit };
        let mut wire_clean = [true, true];
        for side in [Side::Client, Side::Server] {
            let out = mon::wire::check_endpoint(&view, side);
            wire_clean[side.wdir()] = out.violations.is_empty();
            violations.extend(out.violations);
            stats.merge(&out.stats);
            fp.add_u64(out.fp);
        }
        for side in [Side::Client, Side::Server] {
            mon::reset::check_endpoint(&view, side, quiescent, &mut violations, &mut stats);
        }
        // C09 ("legal traffic is never penalised") inside the simulator: both endpoints are h2 and every frame either
        // of them emits has been judged legal by the wire oracles, so a connection error is unprovoked - unless the
        // endpoint had refused or reset streams before (late frames for those may be answered with a connection
        // error after its ignore period, RFC 9113 5.1), the application asked for it (abrupt_shutdown), a fault or
        // scripted ending occurred, or the code is ENHANCE_YOUR_CALM (configured DoS defences).
        // Judged on pristine scenarios only: cooperative, no concurrency limit configured on either side (no stream can
        // be refused) and no RST_STREAM written by anybody in the whole run - what an endpoint decides about late
        // frames of refused or reset streams depends on its (wall-clock) reset memory and is allowed to be an error.
        let any_rst = (0..2).any(|d| view.frames(d).iter().any(|fr| matches!(fr.body, crate::wire::frame::Body::Rst { .. })));
        let pristine = sc.coop && sc.client.max_concurrent_streams.is_none() && sc.server.max_concurrent_streams.is_none() && !any_rst;
        if pristine && sc.faults.is_empty() && sc.ending.is_none() && !mon::apis(view.evs()).any(|(_, a)| matches!(a.op, Op::AbruptShutdown | Op::DropConn)) {
            for side in [Side::Client, Side::Server] {
                let d = side.wdir();
                let peer_clean = wire_clean[1 - d];
                let mut wrote_rst = false;
                for fr in view.frames(d) {
                    match &fr.body {
                        crate::wire::frame::Body::Rst { .. } => wrote_rst = true,
                        crate::wire::frame::Body::GoAway { last, code, .. } if *code != 0 => {
                            stats.inc(&format!("{}.error_goaways_seen", side.name()));
                            if !wrote_rst && peer_clean && *code != 11 {
                                violations.push(Violation::new("C09", format!("unprovoked-connection-error:{}:code{}", side.name(), code), format!("{} wrote GOAWAY(last={}, code={}) although every frame its peer sent was judged legal, it had refused or reset nothing before, and no fault, ending or abrupt shutdown is part of the scenario", side.name(), last, code)));
                            }
                        }
                        _ => {}
                    }
                }
            }
            stats.inc("c09.sim_runs_judged");
        }
        let api = mon::api::check_with_ending(&view, Some(&sc), quiescent, t_ending);
        violations.extend(api.violations);
        stats.merge(&api.stats);
        // acknowledgement completeness at quiescence, for endpoints whose connection is alive and unfaulted
        let no_fault = !w.trace.evs[..limit].iter().any(|e| matches!(e.k, EvK::Fault { .. } | EvK::IoDropped { .. }));
        if quiescent && no_fault {
            for side in [Side::Client, Side::Server] {
                violations.extend(mon::wire::check_acks_at_quiescence(&stats, side));
            }
        }
        // idle close of the client (C19)
        check_idle_close(&view, &sc, quiescent, &mut violations, &mut stats);
    }
    violations.extend(extra_viol);
    for (hook, name) in [(&chook, "client"), (&shook, "server")] {
        let st = hook.0.borrow();
        violations.extend(st.violations.iter().cloned());
        stats.add("snapshots", st.count);
        stats.add("quiescence_probes", st.probes_done);
        stats.max(&format!("max.{}.slab", name), st.max_slab as u64);
        stats.max(&format!("max.{}.recv_buffer", name), st.max_recv_buffer as u64);
        stats.max(&format!("max.{}.send_buffer", name), st.max_send_buffer as u64);
        stats.add("neg_send_window_snapshots", st.neg_send_window_seen);
        stats.add("neg_recv_window_snapshots", st.neg_recv_window_seen);
        for s in &st.distinct_states {
            stats.inc(&format!("state.{}", s));
        }
    }
    // executor facts
    stats.add("polls", w.stats.polls);
    stats.add("conn_polls", w.stats.conn_polls);
    stats.add("world_events", w.stats.world_events);
    stats.add("injected_polls", w.stats.injected_polls);
    stats.add("app_woken_by_conn", w.stats.app_woken_by_conn);
    stats.add("conn_woken_by_app", w.stats.conn_woken_by_app);
    fp.add_u64(w.stats.sched_fp);
    for t in &w.tasks {
        if t.kind == TaskKind::Conn && t.max_self_streak > 64 {
            violations.push(Violation::new("C08", "connection-task-busy-loop", format!("task {} woke itself {} consecutive times without I/O or API activity", t.name, t.max_self_streak)));
        }
        stats.max("max.conn_self_streak", if t.kind == TaskKind::Conn { t.max_self_streak as u64 } else { 0 });
    }
    for p in &w.stats.panics {
        if p.contains("self.slab.is_empty()") || p.contains("!self.has_streams()") {
            // test-only drop assertions of the `unstable` feature: triaged under C19, not a C08 panic
            notes.push(format!("unstable drop assertion: {}", p));
            stats.inc("unstable_drop_assertion");
        } else {
            violations.push(Violation::new("C08", format!("panic:{}", panic_rule(p)), p.clone()));
        }
    }
    for d in 0..2 {
        let dir = &w.pipes[0].dirs[d];
        stats.add("partial_writes", dir.partial_writes);
        stats.add("mid_frame_writes", dir.mid_frame_writes);
        stats.add("pending_writes", dir.pending_writes);
        stats.add("pending_flushes", dir.pending_flushes);
        stats.add("bytes_written", dir.written);
        if dir.fault_fired {
            stats.inc("faults_fired");
        }
    }
    if !quiescent {
        stats.inc("budget_exhausted");
    }
    let nontrivial = nontrivial_flags(&stats, &sc);
    let trace_tail: Vec<String> = {
        let evs = &w.trace.evs[..limit];
        let start = evs.len().saturating_sub(if std::env::var("VH_FULL_TRACE").is_ok() { usize::MAX } else { 300 });
        evs[start..].iter().map(|e| fmt_ev(&w, e)).collect()
    };
    // dropping the world drops every still-pending future and handle: run h2's Drop impls under a catcher
    // (not after a panic inside h2: its locks are poisoned and every destructor would panic again)
    // connection objects that were kept alive after their futures completed
    let kept: Vec<Box<dyn std::any::Any>> = [&client_ctl, &server_ctl].iter().flat_map(|c| std::mem::take(&mut c.borrow_mut().kept)).collect();
    for c in [&client_ctl, &server_ctl] {
        c.borrow_mut().pp = None;
    }
    if w.poisoned {
        std::mem::forget(w);
        std::mem::forget(keeper);
        std::mem::forget(kept);
        return Outcome { violations, notes, stats, fp: fp.0, nontrivial, quiescent, steps_exhausted: !quiescent, trace_tail };
    }
    let r = catch_unwind(AssertUnwindSafe(move || {
        drop(w);
        drop(kept);
    }));
    if let Err(p) = r {
        let msg = if let Some(s) = p.downcast_ref::<&str>() { s.to_string() } else if let Some(s) = p.downcast_ref::<String>() { s.clone() } else { "?".into() };
        if msg.contains("self.slab.is_empty()") || msg.contains("!self.has_streams()") {
            notes.push(format!("unstable drop assertion at teardown: {}", msg));
            stats.inc("unstable_drop_assertion");
        } else {
            violations.push(Violation::new("C08", format!("panic:{}", panic_rule(&msg)), format!("panic while dropping handles: {}", msg)));
        }
    }
    Outcome {
        violations,
        notes,
        stats,
        fp: fp.0,
        nontrivial,
        quiescent,
        steps_exhausted: !quiescent,
        trace_tail,
    }
}

pub fn panic_rule(msg: &str) -> String {
    let s: String = msg.chars().filter(|c| c.is_ascii_alphanumeric() || *c == ' ' || *c == '_').take(60).collect();
    s.trim().replace(' ', "-")
}

pub fn fmt_ev(w: &sim::World, e: &crate::trace::Ev) -> String {
    match &e.k {
        EvK::W { dir, idx } => format!("t={} W {} {}", e.t, if *dir == 0 { "c>s" } else { "s>c" }, w.pipes[e.conn as usize].dirs[*dir as usize].frames[*idx as usize].short()),
        EvK::R { dir, idx } => format!("t={} R {} {}", e.t, if *dir == 0 { "c>s" } else { "s>c" }, w.pipes[e.conn as usize].dirs[*dir as usize].frames[*idx as usize].short()),
        EvK::Api(a) => format!(
            "t={} API {} {:?}/{:?} tag={} sid={} a={} b={} flag={} res={}",
            e.t,
            a.side.name(),
            a.op,
            a.phase,
            a.tag,
            a.sid,
            a.a,
            a.b,
            a.flag,
            match &a.res {
                Res::Err(x) => format!("Err({})", x.display),
                o => format!("{:?}", o),
            }
        ),
        o => format!("t={} {:?}", e.t, o),
    }
}

fn check_idle_close(view: &View, sc: &Scenario, quiescent: bool, out: &mut Vec<Violation>, stats: &mut Stats) {
    if !quiescent || !sc.faults.is_empty() || sc.ending.is_some() {
        return;
    }
    // Did the client connection future complete with Ok?
    let mut client_ok = false;
    let mut client_dropped = false;
    for (_e, a) in mon::apis(view.evs()) {
        if a.side == Side::Client && a.op == Op::ConnDone && a.phase == Phase::Ret {
            client_ok = matches!(a.res, Res::Ok);
        }
        if a.side == Side::Client && a.op == Op::DropConn {
            client_dropped = true;
        }
    }
    // "When the last request handle and the last stream of a client connection are gone, the connection ...
    // completes": every client application task has finished (each drops its handles when it ends, and a stream
    // all of whose handles are gone is closed or cancelled), nothing ended the connection, and yet the
    // connection future is still pending in the quiescent world.
    let conn_called = mon::apis(view.evs()).any(|(_, a)| a.side == Side::Client && a.op == Op::ConnDone && a.phase == Phase::Call);
    let conn_returned = mon::apis(view.evs()).any(|(_, a)| a.side == Side::Client && a.op == Op::ConnDone && a.phase == Phase::Ret);
    if conn_called && !conn_returned && !client_dropped {
        let open_tasks: Vec<&str> = view.w.tasks.iter().filter(|t| !t.done && t.name.starts_with("client-") && t.name != "client-conn" && t.name != "client-main").map(|t| t.name.as_str()).collect();
        let handshake_ok = mon::apis(view.evs()).any(|(_, a)| a.side == Side::Client && a.op == Op::Handshake && a.phase == Phase::Ret && matches!(a.res, Res::Ok));
        // (cooperative scenarios only: a peer application that never releases capacity can keep request data the
        // client has accepted unsent for ever, and such a stream is not gone)
        if open_tasks.is_empty() && handshake_ok && sc.coop {
            stats.inc("idle_close_due_checked");
            out.push(Violation::new("C19", "idle-client-connection-never-closes", "every client task has finished and dropped its handles (last SendRequest, every stream handle), the world is quiescent, yet the client connection future is still pending: no GOAWAY(NO_ERROR), no shutdown".to_string()));
        }
    }
    if client_dropped || !client_ok {
        return;
    }
    // the server ended the connection first? (GOAWAY from the server or server io gone)
    let server_goaway = view.frames(1).iter().any(|f| matches!(f.body, crate::wire::frame::Body::GoAway { .. }));
    let server_gone_first = view.evs().iter().any(|e| matches!(e.k, EvK::IoDropped { side: Side::Server }))
        && view
            .evs()
            .iter()
            .position(|e| matches!(e.k, EvK::IoDropped { side: Side::Server }))
            < view.evs().iter().position(|e| matches!(&e.k, EvK::Api(a) if a.side == Side::Client && a.op == Op::ConnDone && a.phase == Phase::Ret));
    if server_goaway || server_gone_first {
        return;
    }
    stats.inc("idle_close_checked");
    let goaway_noerror = view.frames(0).iter().any(|f| matches!(f.body, crate::wire::frame::Body::GoAway { code: 0, .. }));
    let shutdown = view.w.pipes[view.conn as usize].dirs[0].shutdown_called;
    if !goaway_noerror {
        out.push(Violation::new("C19", "idle-client-closed-without-goaway", "client connection completed Ok without sending GOAWAY(NO_ERROR)".to_string()));
    }
    if !shutdown {
        out.push(Violation::new("C19", "idle-client-closed-without-transport-shutdown", "client connection completed Ok without shutting the transport down".to_string()));
    }
}

fn nontrivial_flags(s: &Stats, sc: &Scenario) -> BTreeMap<&'static str, bool> {
    let mut m = BTreeMap::new();
    let data_frames = s.get("client.frames.DATA") + s.get("server.frames.DATA");
    let conts = s.get("client.header_blocks_with_continuation") + s.get("server.header_blocks_with_continuation");
    let split = data_frames > s.get("send_data_ok") || conts > 0 || s.get("mid_frame_writes") > 0;
    m.insert("C01", split && s.get("chunks_delivered") > 0);
    m.insert("C02", s.get("client.data_exhausting_stream_window") + s.get("server.data_exhausting_stream_window") + s.get("client.data_exhausting_conn_window") + s.get("server.data_exhausting_conn_window") > 0);
    m.insert("C03", s.get("chunks_delivered") > 0 && (sc.streams.iter().any(|x| !x.fully_cooperative()) || sc.conn_ops.iter().any(|o| matches!(o.kind, ConnOpKind::SetInitialWindow(_) | ConnOpKind::SetTargetWindow(_)))));
    m.insert("C04", conts > 0 || s.get("send_reset_calls") > 0 || s.get("client.ids_near_exhaustion") > 0 || sc.streams.iter().any(|x| !x.fully_cooperative()));
    m.insert("C05", s.get("client.opened_at_limit") + s.get("server.opened_at_limit") + s.get("client.refused_streams") + s.get("server.refused_streams") + s.get("server.accept_at_limit") > 0);
    m.insert("C06", s.get("app_woken_by_conn") > 0);
    m.insert("C07", s.get("faults_fired") > 0 || sc.conn_ops.iter().any(|o| matches!(o.kind, ConnOpKind::DropConn | ConnOpKind::AbruptShutdown(_) | ConnOpKind::GracefulShutdown)));
    m.insert("C12", s.get("mid_frame_writes") > 0 || s.get("client.frames_at_max_size") + s.get("server.frames_at_max_size") > 0);
    m.insert("C14", s.get("client.iws_changed_with_open_streams") + s.get("server.iws_changed_with_open_streams") > 0 || s.get("client.e_pings_written") + s.get("server.e_pings_written") > 0);
    m.insert("C15", s.get("client.goaways") + s.get("server.goaways") > 0 && s.get("client.streams_opened") > 1);
    m.insert("C16", s.get("capacity_notifications") > 0 && sc.streams.len() > 1);
    m.insert("C17", s.get("send_reset_calls") > 0 || sc.streams.iter().any(|x| x.req.abort.is_some() || x.resp.abort.is_some() || x.client_cancel_after.is_some()));
    m.insert("C19", sc.streams.iter().any(|x| !x.fully_cooperative()) || s.get("forget_checks") > 0);
    m.insert("C20", s.get("injected_polls") > 0);
    m
}
