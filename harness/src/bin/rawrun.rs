//! raw engine runner: `rawrun --prop C09 --family catalogue --base-seed S --start I --count N [--replay SEED]`
use vh::engine::raw::*;
use vh::report::{Args, Shard};
use vh::rng::splitmix;

fn main() {
    let a = Args::parse();
    let prop = a.str("prop", "ALL");
    let family = a.str("family", "catalogue");
    let base = a.u64("base-seed", 1);
    let start = a.u64("start", 0);
    let count = a.u64("count", 100);
    let replay_dir = a.str("replay-dir", "/verif/replays");
    let verbose = a.flag("verbose");
    if !a.flag("show-panics") {
        std::panic::set_hook(Box::new(|_| {}));
    }
    let mut shard = Shard::new("raw", &prop, &replay_dir);
    shard.replay_args = vec!["--family".into(), family.clone()];
    if let Some(k) = a.get("kinds") {
        shard.replay_args.push("--kinds".into());
        shard.replay_args.push(k.to_string());
    }
    let seeds: Vec<u64> = if let Some(s) = a.get("replay") { vec![s.parse().expect("seed")] } else { (start..start + count).map(|i| splitmix(base, i)).collect() };
    for seed in seeds {
        let (out, desc): (vh::engine::sim::Outcome, serde_json::Value) = match family.as_str() {
            "catalogue" => {
                let only: Vec<String> = a.str("kinds", "").split(',').filter(|x| !x.is_empty()).map(|x| x.to_string()).collect();
                let sc = gen_catalogue_kinds(seed, &only);
                let d = serde_json::json!({"seed": seed, "family": "catalogue", "item": sc.item, "state": format!("{:?}", sc.state), "server": sc.server_cfg.to_json(), "sched": format!("{:?}", sc.sched), "prof": [format!("{:?}", sc.prof[0]), format!("{:?}", sc.prof[1])], "witness_body": sc.witness_body});
                (run_catalogue(&sc), d)
            }
            "headers" => {
                let sc = gen_headers(seed);
                let d = serde_json::json!({"seed": seed, "family": "headers", "e": if sc.e_server {"server"} else {"client"}, "kind": format!("{:?}", sc.kind), "defect": sc.defect, "fields": sc.fields.iter().map(|(n, v)| format!("{}: {}", String::from_utf8_lossy(n), String::from_utf8_lossy(v))).collect::<Vec<_>>(), "body": sc.body, "method": sc.method});
                (run_headers(&sc), d)
            }
            "fuzz" => {
                let sc = gen_fuzz(seed);
                let hex: String = sc.input.iter().take(200).map(|b| format!("{:02x}", b)).collect();
                let d = serde_json::json!({"seed": seed, "family": "fuzz", "e": if sc.e_server {"server"} else {"client"}, "class": sc.class, "input_len": sc.input.len(), "input_head_hex": hex, "cfg": sc.cfg.to_json()});
                (run_fuzz(&sc), d)
            }
            "flood" => {
                let only: Vec<String> = a.str("kinds", "").split(',').filter(|x| !x.is_empty()).map(|x| x.to_string()).collect();
                let sc = vh::engine::flood::gen_flood_kinds(seed, &only);
                let d = sc.to_json();
                (vh::engine::flood::run_flood(&sc), d)
            }
            "window" => {
                let sc = vh::engine::window::gen_window(seed);
                let d = sc.to_json();
                (vh::engine::window::run_window(&sc), d)
            }
            "shutdown" => {
                let sc = vh::engine::shutdown::gen_shutdown(seed);
                let d = sc.to_json();
                (vh::engine::shutdown::run_shutdown(&sc), d)
            }
            "sendhdr" => {
                let sc = gen_sendhdr(seed);
                let d = serde_json::json!({"seed": seed, "family": "sendhdr", "e": if sc.e_server {"server"} else {"client"}, "position": sc.position, "defects": sc.defects, "fields": sc.fields.iter().map(|(n, v)| format!("{}: {}", n, String::from_utf8_lossy(v))).collect::<Vec<_>>()});
                (run_sendhdr(&sc), d)
            }
            other => panic!("unknown family {}", other),
        };
        let nt = out.stats.get("catalogue.applied") > 0 || out.stats.get("nontrivial") > 0;
        if verbose || a.get("replay").is_some() {
            eprintln!("seed {}: {} quiescent={} violations={}", seed, desc, out.quiescent, out.violations.len());
            for v in &out.violations {
                eprintln!("  {} {} :: {}", v.prop, v.rule, v.detail);
            }
            for n in &out.notes {
                eprintln!("  note: {}", n);
            }
            if a.get("replay").is_some() {
                for l in &out.trace_tail {
                    eprintln!("    {}", l);
                }
            }
        }
        shard.record(seed, &out.violations, &out.stats, out.fp, nt, out.steps_exhausted, &|| desc.clone(), &out.trace_tail, &out.notes);
    }
    shard.print();
}
