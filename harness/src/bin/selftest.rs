//! Oracle self-test run by `./check --setup`: the trusted base must answer correctly on
//! hand-written conforming and violating inputs before any verdict is believed.
use vh::wire::frame::*;
use vh::wire::hpack_ref::*;

fn hex(s: &str) -> Vec<u8> {
    let s: String = s.chars().filter(|c| !c.is_whitespace()).collect();
    (0..s.len() / 2).map(|i| u8::from_str_radix(&s[2 * i..2 * i + 2], 16).unwrap()).collect()
}

fn main() {
    // Huffman table parsed from the RFC text: complete, prefix-free (tree build asserts), EOS = 30 ones
    let t = huff();
    assert_eq!(t.codes.len(), 257);
    assert_eq!(t.codes[256], (0x3fff_ffff, 30));
    assert_eq!(t.codes[b'a' as usize], (0x3, 5));
    let kraft: f64 = t.codes.iter().map(|(_, n)| 0.5f64.powi(*n as i32)).sum();
    assert!((kraft - 1.0).abs() < 1e-12, "Huffman code is not complete: {}", kraft);
    // RFC 7541 C.4.1
    assert_eq!(huff_decode(&hex("f1e3 c2e5 f23a 6ba0 ab90 f4ff")).unwrap(), b"www.example.com".to_vec());
    let mut v = vec![];
    huff_encode(b"no-cache", &mut v);
    assert_eq!(v, hex("a8eb 1064 9cbf"));
    // RFC 7541 C.3 (no Huffman) with dynamic table evolution
    let mut d = RefDecoder::new(4096);
    let r = d.decode(&hex("8286 8441 0f77 7777 2e65 7861 6d70 6c65 2e63 6f6d"), true, true).unwrap();
    assert_eq!(r.fields.len(), 4);
    assert_eq!(d.table.size, 57);
    let r = d.decode(&hex("8286 84be 5808 6e6f 2d63 6163 6865"), true, true).unwrap();
    assert_eq!(r.fields[4], (b"cache-control".to_vec(), b"no-cache".to_vec()));
    assert_eq!(d.table.size, 110);
    // violating inputs
    assert_eq!(RefDecoder::new(4096).decode(&[0x80], true, false).unwrap_err(), HErr::BadIndex);
    assert_eq!(RefDecoder::new(4096).decode(&[0xff, 0x80, 0x80, 0x80, 0x80, 0x80, 0x80, 0x80, 0x80, 0x80, 0x80, 0x01], true, false).unwrap_err(), HErr::IntOverflow);
    assert_eq!(RefDecoder::new(4096).decode(&[0x82, 0x20], true, false).unwrap_err(), HErr::BadSizeUpdate);
    assert_eq!(RefDecoder::new(100).decode(&[0x3f, 0xe1, 0x1f], true, false).unwrap_err(), HErr::BadSizeUpdate); // 4096 > 100
    assert_eq!(RefDecoder::new(4096).decode(&[0x40, 0x01, b'a'], true, false).unwrap_err(), HErr::Truncated);
    assert!(RefDecoder::new(4096).decode(&[0x40, 0x81, 0xff, 0x01, b'b'], true, false).is_err()); // EOS-prefix padding of 8 bits
    // strict encoder rule: reduction must be signalled first
    let mut d = RefDecoder::new(4096);
    d.set_allowed_max(100);
    assert!(d.clone().decode(&[0x82], true, true).is_err());
    assert!(d.clone().decode(&[0x3f, 0x45, 0x82], true, true).is_ok()); // update to 100
    assert!(d.clone().decode(&[0x3f, 0x46, 0x82], true, true).is_err()); // update to 101 > 100
    // frame parser: violating sizes are flagged
    let mut p = FrameParser::new(false);
    let mut out = vec![];
    let mut bytes = vec![];
    raw_frame(T_PING, 0, 0, &[0; 7], &mut bytes);
    raw_frame(T_RST, 0, 1, &[0; 5], &mut bytes);
    raw_frame(T_SETTINGS, 0, 0, &[0; 5], &mut bytes);
    raw_frame(T_WINDOW_UPDATE, 0, 0, &[0; 3], &mut bytes);
    raw_frame(T_DATA, F_PADDED, 1, &[5, 1, 2], &mut bytes);
    raw_frame(T_CONTINUATION, 0, 1, &[], &mut bytes);
    p.feed(&bytes, &mut out);
    assert_eq!(out.len(), 6);
    assert!(out.iter().all(|f| matches!(f.body, Body::Malformed(_))), "{:?}", out);
    // an interleaved frame inside a header block is reported
    let mut p = FrameParser::new(false);
    let mut out = vec![];
    let mut bytes = vec![];
    raw_frame(T_HEADERS, 0, 1, &[0x82], &mut bytes);
    ping(false, [0; 8], &mut bytes);
    raw_frame(T_CONTINUATION, F_END_HEADERS, 1, &[0x84], &mut bytes);
    p.feed(&bytes, &mut out);
    assert!(out.iter().any(|f| f.typ == T_HEADERS && f.interleaved));
    nghttp2_crosscheck();
    println!("selftest ok");
}

/// The reference HPACK code is part of the trusted base: cross-check it against libnghttp2.
#[cfg(not(miri))]
fn nghttp2_crosscheck() {
    use vh::nghttp2::{Deflater, Inflater};
    use vh::rng::Rng;
    // every Huffman symbol: a literal field whose value is the symbol encoded with the RFC table
    for sym in 0..=255u8 {
        let mut blk = vec![0x00, 0x01, b'a'];
        let mut enc = vec![];
        huff_encode(&[sym, sym], &mut enc);
        encode_int(enc.len() as u64, 7, 0x80, &mut blk);
        blk.extend_from_slice(&enc);
        let got = Inflater::new().inflate(&blk).expect("nghttp2 inflates the RFC code");
        assert_eq!(got[0].1, vec![sym, sym], "symbol {}", sym);
    }
    // static table
    for i in 1..=61usize {
        let got = Inflater::new().inflate(&[0x80 | i as u8]).unwrap();
        let (n, v) = STATIC_TABLE[i - 1];
        assert_eq!((got[0].0.as_slice(), got[0].1.as_slice()), (n.as_bytes(), v.as_bytes()), "static index {}", i);
    }
    // random histories: reference encoder -> nghttp2 inflater, nghttp2 deflater -> reference decoder
    let mut rng = Rng::new(0xc0ffee);
    for _ in 0..300 {
        let mut enc = RefEncoder::new(4096);
        let mut inf = Inflater::new();
        let mut def = Deflater::new(4096);
        let mut dec = RefDecoder::new(4096);
        let mut dec2 = RefDecoder::new(4096);
        for _ in 0..rng.range(1, 12) {
            let fields: Vec<Field> = (0..rng.range(0, 10))
                .map(|_| {
                    let n = rng.pick(&["x-a", "x-b", "cookie", "accept", "x-long-name-0123456789", ":status", "etag"]).as_bytes().to_vec();
                    let vl = rng.usize_below(60);
                    let v: Vec<u8> = (0..vl).map(|_| b'a' + rng.below(26) as u8).collect();
                    (n, v)
                })
                .collect();
            let mut blk = vec![];
            for (n, v) in &fields {
                let c = EncChoice { repr: rng.below(4) as u8, use_name_index: rng.chance(1, 2), huff_name: rng.chance(1, 2), huff_value: rng.chance(1, 2), int_pad: 0 };
                enc.field(n, v, c, &mut blk);
            }
            assert_eq!(inf.inflate(&blk).expect("nghttp2 accepts reference encoder output"), fields);
            assert_eq!(dec.decode(&blk, true, true).unwrap().fields, fields);
            let blk2 = def.deflate(&fields);
            assert_eq!(dec2.decode(&blk2, true, true).expect("reference decoder accepts nghttp2 output").fields, fields);
        }
    }
    println!("nghttp2 cross-check ok (256 Huffman symbols, 61 static entries, 300 random histories both ways)");
}

#[cfg(miri)]
fn nghttp2_crosscheck() {}
