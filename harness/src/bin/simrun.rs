//! sim engine runner: `simrun --prop C01 --focus fidelity --base-seed S --start I --count N [--coop yes|no|mix] [--small] [--replay SEED]`
use vh::apps::spec::{generate, Focus, GenOpts};
use vh::engine::sim::run_scenario;
use vh::report::{Args, Shard};
use vh::rng::splitmix;

fn main() {
    let a = Args::parse();
    let prop = a.str("prop", "ALL");
    let focus = Focus::parse(&a.str("focus", "general"));
    let base = a.u64("base-seed", 1);
    let start = a.u64("start", 0);
    let count = a.u64("count", 100);
    let coop_mode = a.str("coop", "mix");
    let small = a.flag("small");
    let max_body = a.u64("max-body", if small { 600 } else { 200_000 }) as usize;
    let max_streams = a.u64("max-streams", if small { 3 } else { 10 }) as usize;
    let replay_dir = a.str("replay-dir", "/verif/replays");
    let verbose = a.flag("verbose");
    let quiet_panics = !a.flag("show-panics");
    if quiet_panics {
        std::panic::set_hook(Box::new(|_| {}));
    }
    let mut shard = Shard::new("sim", &prop, &replay_dir);
    let seeds: Vec<u64> = if let Some(s) = a.get("replay") {
        vec![s.parse().expect("seed")]
    } else {
        (start..start + count).map(|i| splitmix(base, i)).collect()
    };
    if a.str("family", "scenarios") == "faults" {
        // C07 fault enumeration: a small base scenario, then the same scenario re-run with every ending kind
        // at sampled (or all) world steps.
        use vh::apps::spec::{EndKind, Ending};
        use vh::rng::Rng;
        let exhaustive = a.flag("exhaustive");
        let per_base = a.u64("points", 8);
        for seed in &seeds {
            let o = GenOpts { focus, coop: true, max_streams: 3, max_body: if exhaustive { 300 } else { 3000 }, small: true };
            let mut base = generate(*seed, &o);
            base.conn_ops.retain(|c| !matches!(c.kind, vh::apps::spec::ConnOpKind::DropConn | vh::apps::spec::ConnOpKind::GracefulShutdown | vh::apps::spec::ConnOpKind::AbruptShutdown(_)));
            let b = run_scenario(&base);
            let steps = b.stats.get("polls") + b.stats.get("world_events");
            let kinds = [EndKind::CutEof, EndKind::CutReset, EndKind::DropClientConn, EndKind::DropServerConn, EndKind::AbruptShutdown(2), EndKind::AbruptShutdown(0), EndKind::GracefulShutdown];
            let mut rng = Rng::new(*seed ^ 0xfa17);
            let points: Vec<(EndKind, u64)> = if exhaustive && steps <= 600 {
                kinds.iter().flat_map(|k| (1..steps).map(move |s| (*k, s))).collect()
            } else {
                (0..per_base).map(|_| (*rng.pick(&kinds), rng.range(1, steps.max(2) - 1))).collect()
            };
            for (kind, at) in points {
                let mut sc = base.clone();
                sc.ending = Some(Ending { kind, at_step: at });
                sc.coop = false;
                let mut out = run_scenario(&sc);
                if exhaustive && steps <= 600 {
                    out.stats.inc("exhaustive_sweep_points");
                }
                let nt = out.stats.get("pending_at_ending") > 0 || out.stats.get("faults_fired") > 0 || true;
                if verbose || a.get("replay").is_some() {
                    eprintln!("seed {} ending {:?}@{} of {}: violations={}", seed, kind, at, steps, out.violations.len());
                    for v in &out.violations {
                        eprintln!("  {} {} :: {}", v.prop, v.rule, v.detail);
                    }
                    for n in &out.notes {
                        eprintln!("  note: {}", n);
                    }
                }
                let desc = || {
                    let mut j = sc.to_json();
                    j["base_steps"] = serde_json::json!(steps);
                    j
                };
                shard.record(*seed, &out.violations, &out.stats, out.fp ^ at.wrapping_mul(0x9e37), nt, out.steps_exhausted, &desc, &out.trace_tail, &out.notes);
            }
        }
        shard.print();
        return;
    }
    for (i, seed) in seeds.iter().enumerate() {
        let coop = match coop_mode.as_str() {
            "yes" => true,
            "no" => false,
            _ => seed % 3 != 0,
        };
        let o = GenOpts { focus, coop, max_streams, max_body, small };
        let sc = generate(*seed, &o);
        let out = run_scenario(&sc);
        let nt = if prop == "ALL" { out.nontrivial.values().any(|x| *x) } else { out.nontrivial.get(prop.as_str()).copied().unwrap_or(true) };
        if verbose || a.get("replay").is_some() {
            eprintln!("seed {} #{}: quiescent={} violations={} fp={:x}", seed, i, out.quiescent, out.violations.len(), out.fp);
            for v in &out.violations {
                eprintln!("  {} {} :: {}", v.prop, v.rule, v.detail);
            }
            for n in &out.notes {
                eprintln!("  note: {}", n);
            }
            if a.get("replay").is_some() {
                eprintln!("scenario: {}", serde_json::to_string_pretty(&sc.to_json()).unwrap());
                let n = a.u64("tail", 120) as usize;
                let st = out.trace_tail.len().saturating_sub(n);
                for l in &out.trace_tail[st..] {
                    eprintln!("    {}", l);
                }
            }
        }
        shard.record(*seed, &out.violations, &out.stats, out.fp, nt, out.steps_exhausted, &|| sc.to_json(), &out.trace_tail, &out.notes);
    }
    shard.print();
}
