//! component engines: `codecrun --family ser|ser-hpack|parse|oversize|hpackdec|huffman|huffman-exhaustive ...`
use vh::engine::codec::*;
use vh::report::{Args, Shard};
use vh::rng::splitmix;

fn main() {
    let a = Args::parse();
    let prop = a.str("prop", "ALL");
    let family = a.str("family", "ser");
    let base = a.u64("base-seed", 1);
    let start = a.u64("start", 0);
    let count = a.u64("count", 100);
    let replay_dir = a.str("replay-dir", "/verif/replays");
    let verbose = a.flag("verbose");
    let big = a.flag("big-sizes");
    let mut shard = Shard::new("codec", &prop, &replay_dir);
    shard.replay_args = vec!["--family".into(), family.clone()];
    if family == "huffman-exhaustive" {
        // the index space [start, start+count) of all byte strings of length <= max-len
        let max_len = a.u64("max-len", 2) as usize;
        let out = huffman_range(max_len, start, start + count);
        shard.record(start, &out.violations, &out.stats, out.fp, true, false, &|| out.desc.clone(), &[], &[]);
        shard.print();
        return;
    }
    let seeds: Vec<u64> = if let Some(s) = a.get("replay") { vec![s.parse().expect("seed")] } else { (start..start + count).map(|i| splitmix(base, i)).collect() };
    for seed in seeds {
        let out = match family.as_str() {
            "ser" => ser_case(seed, false, big),
            "ser-hpack" => ser_case(seed, true, false),
            "parse" => parse_case(seed),
            "oversize" => oversize_case(seed),
            "hpackdec" => hpackdec_case(seed),
            "huffman" => huffman_case(seed),
            other => panic!("unknown family {}", other),
        };
        let nt = match prop.as_str() {
            "C10" => out.stats.get("nontrivial.C10") > 0 || (family == "huffman"),
            "C12" => out.stats.get("nontrivial.C12") > 0,
            _ => out.nontrivial,
        };
        if verbose || a.get("replay").is_some() {
            eprintln!("seed {}: {} violations={}", seed, out.desc, out.violations.len());
            for v in &out.violations {
                eprintln!("  {} {} :: {}", v.prop, v.rule, v.detail);
            }
        }
        shard.record(seed, &out.violations, &out.stats, out.fp, nt, false, &|| out.desc.clone(), &[], &[]);
    }
    shard.print();
}
