//! threaded engine runner: `threadrun --prop C20 --base-seed S --start I --count N [--small] [--replay SEED [--repeat K]]`
use vh::engine::threaded::*;
use vh::report::{Args, Shard};
use vh::rng::splitmix;

fn main() {
    let a = Args::parse();
    let prop = a.str("prop", "C20");
    let base = a.u64("base-seed", 1);
    let start = a.u64("start", 0);
    let count = a.u64("count", 20);
    let small = a.flag("small");
    let watchdog = a.u64("watchdog", 30);
    let replay_dir = a.str("replay-dir", "/verif/replays");
    let verbose = a.flag("verbose");
    if !a.flag("show-panics") {
        std::panic::set_hook(Box::new(|_| {}));
    }
    let mut shard0 = Shard::new("thread", &prop, &replay_dir);
    shard0.replay_args = if small { vec!["--small".into()] } else { vec![] };
    let shard = std::sync::Arc::new(std::sync::Mutex::new(shard0));
    let repeat = a.u64("repeat", 20);
    let seeds: Vec<u64> = if let Some(s) = a.get("replay") { std::iter::repeat(s.parse().expect("seed")).take(repeat as usize).collect() } else { (start..start + count).map(|i| splitmix(base, i)).collect() };
    for seed in seeds {
        let mut sc = gen_thread(seed, small);
        if let Some(n) = a.get("pings") {
            sc.pings = n.parse().expect("pings");
        }
        let desc = sc.to_json();
        let on_deadlock: OnDeadlock = {
            let (shard, desc) = (shard.clone(), desc.clone());
            std::sync::Arc::new(move |v, dump: String| {
                // the scenario thread may be one of the stuck ones: publish from here and end the process
                let mut sh = shard.lock().unwrap();
                let mut st = vh::mon::Stats::default();
                st.inc("threads.deadlocks");
                sh.record(seed, &[v], &st, seed, true, false, &|| desc.clone(), &[], &[dump.clone()]);
                sh.print();
                std::process::exit(0);
            })
        };
        let out = run_threads(&sc, watchdog, on_deadlock);
        // "preserves all the guarantees above": whatever oracle fires under real concurrency decides C20
        let mut out = out;
        for v in out.violations.iter_mut() {
            if v.prop != "C20" {
                v.rule = format!("{}:{}", v.prop, v.rule);
                v.prop = "C20";
            }
        }
        let nt = out.stats.get("nontrivial") > 0;
        if verbose || a.get("replay").is_some() {
            eprintln!("seed {}: {} violations={} inconclusive={:?}", seed, desc, out.violations.len(), out.inconclusive);
            for v in &out.violations {
                eprintln!("  {} {} :: {}", v.prop, v.rule, v.detail);
            }
            for n in &out.notes {
                eprintln!("  note: {}", n);
            }
        }
        shard.lock().unwrap().record(seed, &out.violations, &out.stats, out.fp, nt, out.inconclusive.is_some(), &|| desc.clone(), &[], &out.notes);
    }
    shard.lock().unwrap().print();
}
