//! Duplex in-memory transport. Direction 0 = client→server, 1 = server→client.
//! Every byte accepted from a writer is tee'd into that direction's independent
//! frame parser immediately (wire log); delivery to the reader is a separate
//! world event so that "written" and "read" are distinct instants.

use crate::rng::Rng;
use crate::trace::{EvK, Side, Trace};
use crate::wire::frame::{Frame, FrameParser};
use std::collections::VecDeque;
use std::io;
use std::pin::Pin;
use std::task::{Context, Poll, Waker};
use tokio::io::{AsyncRead, AsyncWrite, ReadBuf};

#[derive(Debug, Clone, Copy, PartialEq, Eq)]
pub enum Chunk {
    All,
    Fixed(usize),
    Uniform(usize, usize),
    /// 1 byte, a few bytes, or everything
    Mixed,
}

impl Chunk {
    pub fn draw(&self, rng: &mut Rng, avail: usize) -> usize {
        if avail == 0 {
            return 0;
        }
        let n = match *self {
            Chunk::All => avail,
            Chunk::Fixed(n) => n,
            Chunk::Uniform(lo, hi) => rng.range(lo as u64, hi as u64) as usize,
            Chunk::Mixed => match rng.below(6) {
                0 => 1,
                1 => rng.range(1, 9) as usize,
                2 => rng.range(1, 64) as usize,
                3 => rng.range(1, 1200) as usize,
                4 => rng.range(1, 20000) as usize,
                _ => avail,
            },
        };
        n.max(1).min(avail)
    }
}

#[derive(Debug, Clone)]
pub struct DirProfile {
    pub write_max: Chunk,
    pub write_pending: (u64, u64),
    pub flush_pending: (u64, u64),
    pub shutdown_pending: (u64, u64),
    pub vectored: bool,
    pub deliver: Chunk,
    pub read_max: Chunk,
}

impl Default for DirProfile {
    fn default() -> Self {
        DirProfile {
            write_max: Chunk::All,
            write_pending: (0, 1),
            flush_pending: (0, 1),
            shutdown_pending: (0, 1),
            vectored: false,
            deliver: Chunk::All,
            read_max: Chunk::All,
        }
    }
}

#[derive(Debug, Clone, Copy, PartialEq, Eq)]
pub enum FaultKind {
    /// reader sees a clean EOF once the bytes before the cut are consumed; writer gets BrokenPipe afterwards
    CutEof,
    /// reader sees Err(ConnectionReset); writer gets BrokenPipe afterwards
    CutReset,
    /// writer's poll_write fails with this kind from the offset on (reader sees EOF)
    WriteErr,
    /// writer's poll_write returns Ok(0) from the offset on
    WriteZero,
}

#[derive(Debug, Clone, Copy)]
pub struct Fault {
    pub dir: usize,
    /// triggers once this many bytes were written in `dir`
    pub at: u64,
    pub kind: FaultKind,
}

#[derive(Debug, Clone, Copy, PartialEq, Eq)]
enum Closed {
    No,
    Eof,
    Reset,
}

pub struct Dir {
    inflight: VecDeque<u8>,
    readable: VecDeque<u8>,
    pub written: u64,
    pub delivered: u64,
    pub read: u64,
    reader_waker: Option<Waker>,
    writer_waker: Option<Waker>,
    flusher_waker: Option<Waker>,
    shutdown_waker: Option<Waker>,
    writer_armed: bool,
    flusher_armed: bool,
    shutdown_armed: bool,
    write_grant: bool,
    flush_grant: bool,
    shutdown_grant: bool,
    /// scripted back-pressure: writer gets Pending until released
    pub blocked: bool,
    closed: Closed,
    eof_visible: bool,
    write_fail: Option<FaultKind>,
    reader_gone: bool,
    reader_gone_err: bool,
    pub shutdown_called: bool,
    pub fault: Option<Fault>,
    pub fault_fired: bool,
    pub profile: DirProfile,
    pub parser: FrameParser,
    pub frames: Vec<Frame>,
    /// logical time at which frame i was completely written / completely read (0 = not yet)
    pub t_written: Vec<u64>,
    pub t_read: Vec<u64>,
    next_unread: usize,
    scratch: Vec<Frame>,
    pub write_calls: u64,
    pub partial_writes: u64,
    pub pending_writes: u64,
    pub pending_flushes: u64,
    /// a write ended strictly inside a frame (header or payload)
    pub mid_frame_writes: u64,
    pub bytes_log: Option<Vec<u8>>,
}

impl Dir {
    fn new(expect_preface: bool, profile: DirProfile) -> Dir {
        Dir {
            inflight: VecDeque::new(),
            readable: VecDeque::new(),
            written: 0,
            delivered: 0,
            read: 0,
            reader_waker: None,
            writer_waker: None,
            flusher_waker: None,
            shutdown_waker: None,
            writer_armed: false,
            flusher_armed: false,
            shutdown_armed: false,
            write_grant: false,
            flush_grant: false,
            shutdown_grant: false,
            blocked: false,
            closed: Closed::No,
            eof_visible: false,
            write_fail: None,
            reader_gone: false,
            reader_gone_err: false,
            shutdown_called: false,
            fault: None,
            fault_fired: false,
            profile,
            parser: FrameParser::new(expect_preface),
            frames: Vec::new(),
            t_written: Vec::new(),
            t_read: Vec::new(),
            next_unread: 0,
            scratch: Vec::new(),
            write_calls: 0,
            partial_writes: 0,
            pending_writes: 0,
            pending_flushes: 0,
            mid_frame_writes: 0,
            bytes_log: None,
        }
    }

    pub fn debug_state(&self) -> String {
        format!(
            "written={} delivered={} read={} inflight={} readable={} closed={:?} eof_visible={} reader_waker={} writer_waker={} flusher_waker={} armed(w={} f={} s={}) blocked={} reader_gone={} shutdown_called={}",
            self.written, self.delivered, self.read, self.inflight.len(), self.readable.len(), self.closed, self.eof_visible, self.reader_waker.is_some(), self.writer_waker.is_some(), self.flusher_waker.is_some(), self.writer_armed, self.flusher_armed, self.shutdown_armed, self.blocked, self.reader_gone, self.shutdown_called
        )
    }

    pub fn unread_bytes(&self) -> u64 {
        self.written - self.read
    }
    pub fn is_closed(&self) -> bool {
        self.closed != Closed::No
    }
    pub fn eof_visible(&self) -> bool {
        self.eof_visible
    }
}

pub struct PipeState {
    pub conn: u8,
    pub dirs: [Dir; 2],
}

fn side_write_dir(side: Side) -> usize {
    match side {
        Side::Client => 0,
        Side::Server => 1,
    }
}

impl PipeState {
    pub fn new(conn: u8, p0: DirProfile, p1: DirProfile) -> PipeState {
        PipeState {
            conn,
            dirs: [Dir::new(true, p0), Dir::new(false, p1)],
        }
    }

    pub fn writer_side(d: usize) -> Side {
        if d == 0 {
            Side::Client
        } else {
            Side::Server
        }
    }

    pub fn pending_events(&self, d: usize) -> Vec<u8> {
        let dir = &self.dirs[d];
        let mut v = Vec::new();
        if !dir.inflight.is_empty() {
            v.push(0);
        }
        if dir.writer_armed && dir.writer_waker.is_some() && !dir.blocked {
            v.push(1);
        }
        if dir.flusher_armed && dir.flusher_waker.is_some() {
            v.push(2);
        }
        if dir.closed != Closed::No && dir.inflight.is_empty() && !dir.eof_visible {
            v.push(3);
        }
        if dir.shutdown_armed && dir.shutdown_waker.is_some() {
            v.push(4);
        }
        v
    }

    pub fn fire_event(&mut self, d: usize, k: u8, rng: &mut Rng, trace: &mut Trace) -> Option<Waker> {
        let conn = self.conn;
        let dir = &mut self.dirs[d];
        match k {
            0 => {
                let n = dir.profile.deliver.draw(rng, dir.inflight.len());
                for _ in 0..n {
                    let b = dir.inflight.pop_front().unwrap();
                    dir.readable.push_back(b);
                }
                dir.delivered += n as u64;
                trace.push(conn, EvK::Deliver { dir: d as u8, n: n as u32 });
                dir.reader_waker.take()
            }
            1 => {
                dir.writer_armed = false;
                dir.write_grant = true;
                dir.writer_waker.take()
            }
            2 => {
                dir.flusher_armed = false;
                dir.flush_grant = true;
                dir.flusher_waker.take()
            }
            3 => {
                dir.eof_visible = true;
                trace.push(conn, EvK::EofVisible { dir: d as u8, reset: dir.closed == Closed::Reset });
                dir.reader_waker.take()
            }
            4 => {
                dir.shutdown_armed = false;
                dir.shutdown_grant = true;
                dir.shutdown_waker.take()
            }
            _ => None,
        }
    }

    /// Scripted back-pressure on a direction. Returns a waker to wake when unblocking.
    pub fn set_blocked(&mut self, d: usize, blocked: bool) -> Option<Waker> {
        let dir = &mut self.dirs[d];
        dir.blocked = blocked;
        if !blocked {
            dir.write_grant = true;
            dir.writer_armed = false;
            dir.writer_waker.take()
        } else {
            None
        }
    }

    /// Rebuild the wire history from a recorded run (threaded engine): these bytes were written in `d`.
    pub fn replay_write(&mut self, d: usize, bytes: &[u8], trace: &mut Trace) {
        self.dirs[d].written += bytes.len() as u64;
        self.tee(d, bytes, trace);
    }

    /// Rebuild the wire history from a recorded run: the reader of `d` consumed `n` more bytes.
    pub fn replay_read(&mut self, d: usize, n: usize, trace: &mut Trace) {
        let conn = self.conn;
        let dir = &mut self.dirs[d];
        dir.read += n as u64;
        dir.delivered = dir.delivered.max(dir.read);
        trace.push(conn, EvK::ReadOff { dir: d as u8, total: dir.read });
        while dir.next_unread < dir.frames.len() && dir.frames[dir.next_unread].off_end <= dir.read {
            let idx = dir.next_unread;
            let t = trace.push(conn, EvK::R { dir: d as u8, idx: idx as u32 });
            dir.t_read[idx] = t;
            dir.next_unread += 1;
        }
    }

    fn tee(&mut self, d: usize, bytes: &[u8], trace: &mut Trace) {
        let conn = self.conn;
        let dir = &mut self.dirs[d];
        if let Some(l) = dir.bytes_log.as_mut() {
            l.extend_from_slice(bytes);
        }
        let mut out = std::mem::take(&mut dir.scratch);
        out.clear();
        dir.parser.feed(bytes, &mut out);
        for f in out.drain(..) {
            let idx = dir.frames.len();
            dir.frames.push(f);
            let t = trace.push(conn, EvK::W { dir: d as u8, idx: idx as u32 });
            dir.t_written.push(t);
            dir.t_read.push(0);
        }
        dir.scratch = out;
        if dir.parser.raw.buffered() > 0 {
            dir.mid_frame_writes += 1;
        }
    }

    /// Writer-side entry point shared by h2 endpoints and the raw peer.
    pub fn write(&mut self, d: usize, buf: &[u8], cx: Option<&mut Context<'_>>, rng: &mut Rng, trace: &mut Trace) -> Poll<io::Result<usize>> {
        {
            let dir = &mut self.dirs[d];
            dir.write_calls += 1;
            if buf.is_empty() {
                return Poll::Ready(Ok(0));
            }
            if let Some(k) = dir.write_fail {
                return match k {
                    FaultKind::WriteZero => Poll::Ready(Ok(0)),
                    _ => Poll::Ready(Err(io::Error::new(io::ErrorKind::BrokenPipe, "injected write failure"))),
                };
            }
            if dir.closed != Closed::No {
                return Poll::Ready(Err(io::Error::new(io::ErrorKind::BrokenPipe, "write after close")));
            }
            if dir.reader_gone && dir.reader_gone_err {
                return Poll::Ready(Err(io::Error::new(io::ErrorKind::BrokenPipe, "peer gone")));
            }
            if let Some(cx) = cx {
                if dir.blocked {
                    dir.writer_waker = Some(cx.waker().clone());
                    dir.pending_writes += 1;
                    return Poll::Pending;
                }
                if !dir.write_grant && rng.chance(dir.profile.write_pending.0, dir.profile.write_pending.1) {
                    dir.writer_waker = Some(cx.waker().clone());
                    dir.writer_armed = true;
                    dir.pending_writes += 1;
                    return Poll::Pending;
                }
            }
            dir.write_grant = false;
        }
        let mut n = {
            let dir = &mut self.dirs[d];
            dir.profile.write_max.draw(rng, buf.len())
        };
        // fault at offset
        let mut fire: Option<FaultKind> = None;
        {
            let dir = &mut self.dirs[d];
            if let Some(f) = dir.fault {
                if !dir.fault_fired {
                    let room = f.at.saturating_sub(dir.written) as usize;
                    if room == 0 {
                        fire = Some(f.kind);
                        n = 0;
                    } else if n >= room {
                        n = room;
                    }
                }
            }
        }
        if let Some(k) = fire {
            self.fire_fault(d, k, trace);
            return match k {
                FaultKind::WriteZero => Poll::Ready(Ok(0)),
                _ => Poll::Ready(Err(io::Error::new(io::ErrorKind::BrokenPipe, "injected fault"))),
            };
        }
        if n < buf.len() {
            self.dirs[d].partial_writes += 1;
        }
        self.tee(d, &buf[..n], trace);
        let dir = &mut self.dirs[d];
        dir.written += n as u64;
        if dir.reader_gone {
            // discarded
        } else {
            dir.inflight.extend(buf[..n].iter().copied());
        }
        Poll::Ready(Ok(n))
    }

    fn fire_fault(&mut self, d: usize, k: FaultKind, trace: &mut Trace) {
        let conn = self.conn;
        let dir = &mut self.dirs[d];
        dir.fault_fired = true;
        trace.push(conn, EvK::Fault { dir: d as u8, kind: k, at: dir.written });
        match k {
            FaultKind::CutEof => {
                dir.closed = Closed::Eof;
            }
            FaultKind::CutReset => {
                dir.closed = Closed::Reset;
            }
            FaultKind::WriteErr => {
                dir.write_fail = Some(k);
                dir.closed = Closed::Eof;
            }
            FaultKind::WriteZero => {
                dir.write_fail = Some(k);
            }
        }
    }

    /// Trigger the fault of a direction now if its offset has been reached
    /// (used so that a cut at an offset the writer never exceeds still happens
    /// when the writer goes idle exactly there). Returns true if fired.
    pub fn poll_fault(&mut self, d: usize, trace: &mut Trace) -> bool {
        let f = match self.dirs[d].fault {
            Some(f) if !self.dirs[d].fault_fired && self.dirs[d].written >= f.at => f,
            _ => return false,
        };
        self.fire_fault(d, f.kind, trace);
        true
    }

    /// Force a fault immediately, regardless of offset.
    pub fn force_fault(&mut self, d: usize, k: FaultKind, trace: &mut Trace) -> Option<Waker> {
        if self.dirs[d].fault_fired || self.dirs[d].closed != Closed::No {
            return None;
        }
        self.fire_fault(d, k, trace);
        self.dirs[d].writer_waker.take()
    }

    pub fn flush(&mut self, d: usize, cx: &mut Context<'_>, rng: &mut Rng) -> Poll<io::Result<()>> {
        let dir = &mut self.dirs[d];
        if !dir.flush_grant && rng.chance(dir.profile.flush_pending.0, dir.profile.flush_pending.1) {
            dir.flusher_waker = Some(cx.waker().clone());
            dir.flusher_armed = true;
            dir.pending_flushes += 1;
            return Poll::Pending;
        }
        dir.flush_grant = false;
        Poll::Ready(Ok(()))
    }

    pub fn shutdown(&mut self, d: usize, cx: &mut Context<'_>, rng: &mut Rng, trace: &mut Trace) -> Poll<io::Result<()>> {
        let conn = self.conn;
        let dir = &mut self.dirs[d];
        if !dir.shutdown_grant && rng.chance(dir.profile.shutdown_pending.0, dir.profile.shutdown_pending.1) {
            dir.shutdown_waker = Some(cx.waker().clone());
            dir.shutdown_armed = true;
            return Poll::Pending;
        }
        dir.shutdown_grant = false;
        if !dir.shutdown_called {
            dir.shutdown_called = true;
            trace.push(conn, EvK::Shutdown { dir: d as u8 });
        }
        if dir.closed == Closed::No {
            dir.closed = Closed::Eof;
        }
        Poll::Ready(Ok(()))
    }

    /// Reader-side entry point. `d` is the direction being read.
    pub fn read(&mut self, d: usize, out: &mut [u8], cx: Option<&mut Context<'_>>, rng: &mut Rng, trace: &mut Trace) -> Poll<io::Result<usize>> {
        let conn = self.conn;
        let dir = &mut self.dirs[d];
        if out.is_empty() {
            return Poll::Ready(Ok(0));
        }
        if dir.readable.is_empty() {
            if dir.eof_visible {
                return match dir.closed {
                    Closed::Reset => Poll::Ready(Err(io::Error::new(io::ErrorKind::ConnectionReset, "injected reset"))),
                    _ => Poll::Ready(Ok(0)),
                };
            }
            if let Some(cx) = cx {
                dir.reader_waker = Some(cx.waker().clone());
            }
            return Poll::Pending;
        }
        let avail = dir.readable.len().min(out.len());
        let n = dir.profile.read_max.draw(rng, avail);
        for slot in out.iter_mut().take(n) {
            *slot = dir.readable.pop_front().unwrap();
        }
        dir.read += n as u64;
        trace.push(conn, EvK::ReadOff { dir: d as u8, total: dir.read });
        while dir.next_unread < dir.frames.len() && dir.frames[dir.next_unread].off_end <= dir.read {
            let idx = dir.next_unread;
            let t = trace.push(conn, EvK::R { dir: d as u8, idx: idx as u32 });
            dir.t_read[idx] = t;
            dir.next_unread += 1;
        }
        Poll::Ready(Ok(n))
    }

    pub fn end_dropped(&mut self, side: Side, err_on_write: bool, trace: &mut Trace) -> Vec<Waker> {
        let conn = self.conn;
        let wd = side_write_dir(side);
        let rd = 1 - wd;
        let mut wakers = Vec::new();
        trace.push(conn, EvK::IoDropped { side });
        if self.dirs[wd].closed == Closed::No {
            self.dirs[wd].closed = Closed::Eof;
        }
        let r = &mut self.dirs[rd];
        r.reader_gone = true;
        r.reader_gone_err = err_on_write;
        r.inflight.clear();
        r.readable.clear();
        if let Some(w) = r.writer_waker.take() {
            wakers.push(w);
        }
        wakers
    }

    pub fn readable_len(&self, d: usize) -> usize {
        self.dirs[d].readable.len()
    }
}

/// The I/O object handed to h2. Refers to the thread-local world.
pub struct PipeEnd {
    pub pipe: usize,
    pub side: Side,
    pub inject: bool,
}

impl PipeEnd {
    pub fn new(pipe: usize, side: Side) -> PipeEnd {
        PipeEnd {
            pipe,
            side,
            inject: true,
        }
    }
    fn wd(&self) -> usize {
        side_write_dir(self.side)
    }
    fn rd(&self) -> usize {
        1 - self.wd()
    }
}

impl AsyncRead for PipeEnd {
    fn poll_read(self: Pin<&mut Self>, cx: &mut Context<'_>, buf: &mut ReadBuf<'_>) -> Poll<io::Result<()>> {
        if self.inject {
            super::maybe_inject();
        }
        let (pipe, d) = (self.pipe, self.rd());
        let r = super::with(|w| {
            w.activity += 1;
            let super::World { pipes, rng, trace, .. } = w;
            let dst = buf.initialize_unfilled();
            let r = pipes[pipe].read(d, dst, Some(cx), rng, trace);
            if let Poll::Pending = r {
                w.activity -= 1;
            }
            r
        });
        match r {
            Poll::Ready(Ok(n)) => {
                buf.advance(n);
                Poll::Ready(Ok(()))
            }
            Poll::Ready(Err(e)) => Poll::Ready(Err(e)),
            Poll::Pending => Poll::Pending,
        }
    }
}

impl AsyncWrite for PipeEnd {
    fn poll_write(self: Pin<&mut Self>, cx: &mut Context<'_>, buf: &[u8]) -> Poll<io::Result<usize>> {
        if self.inject {
            super::maybe_inject();
        }
        let (pipe, d) = (self.pipe, self.wd());
        super::with(|w| {
            let super::World { pipes, rng, trace, activity, .. } = w;
            let r = pipes[pipe].write(d, buf, Some(cx), rng, trace);
            if let Poll::Ready(Ok(n)) = &r {
                if *n > 0 {
                    *activity += 1;
                }
            }
            r
        })
    }

    fn poll_write_vectored(self: Pin<&mut Self>, cx: &mut Context<'_>, bufs: &[io::IoSlice<'_>]) -> Poll<io::Result<usize>> {
        let vectored = super::with(|w| w.pipes[self.pipe].dirs[self.wd()].profile.vectored);
        if !vectored {
            let buf = bufs.iter().find(|b| !b.is_empty()).map_or(&[][..], |b| &**b);
            return self.poll_write(cx, buf);
        }
        let mut joined = Vec::new();
        for b in bufs {
            joined.extend_from_slice(b);
        }
        self.poll_write(cx, &joined)
    }

    fn is_write_vectored(&self) -> bool {
        super::with(|w| w.pipes[self.pipe].dirs[self.wd()].profile.vectored)
    }

    fn poll_flush(self: Pin<&mut Self>, cx: &mut Context<'_>) -> Poll<io::Result<()>> {
        if self.inject {
            super::maybe_inject();
        }
        let (pipe, d) = (self.pipe, self.wd());
        super::with(|w| {
            let super::World { pipes, rng, .. } = w;
            pipes[pipe].flush(d, cx, rng)
        })
    }

    fn poll_shutdown(self: Pin<&mut Self>, cx: &mut Context<'_>) -> Poll<io::Result<()>> {
        let (pipe, d) = (self.pipe, self.wd());
        super::with(|w| {
            let super::World { pipes, rng, trace, activity, .. } = w;
            let r = pipes[pipe].shutdown(d, cx, rng, trace);
            if r.is_ready() {
                *activity += 1;
            }
            r
        })
    }
}

impl Drop for PipeEnd {
    fn drop(&mut self) {
        let (pipe, side) = (self.pipe, self.side);
        let wakers = super::try_with(|w| {
            let err = w.rng.chance(w.gone_write_err.0, w.gone_write_err.1);
            let super::World { pipes, trace, .. } = w;
            if pipe < pipes.len() {
                pipes[pipe].end_dropped(side, err, trace)
            } else {
                Vec::new()
            }
        });
        if let Some(ws) = wakers {
            for w in ws {
                w.wake();
            }
        }
    }
}
