//! The deterministic single-threaded world: strict executor, duplex in-memory
//! pipes with PRNG-controlled chunking / back-pressure / faults, a global
//! logical clock and the trace every monitor reads.

pub mod pipe;

use crate::rng::Rng;
use crate::trace::{Ev, EvK, Trace};
use std::cell::{Cell, RefCell};
use std::future::Future;
use std::panic::{catch_unwind, AssertUnwindSafe};
use std::pin::Pin;
use std::sync::atomic::{AtomicBool, AtomicU32, AtomicU64, Ordering};
use std::sync::Arc;
use std::task::{Context, Poll, Wake, Waker};

pub use pipe::{DirProfile, Fault, FaultKind, PipeEnd, PipeState};

pub const CAUSE_NONE: u32 = u32::MAX;
pub const CAUSE_WORLD: u32 = u32::MAX - 1;
pub const CAUSE_INIT: u32 = u32::MAX - 2;

thread_local! {
    static CURRENT: Cell<u32> = const { Cell::new(CAUSE_NONE) };
    static WORLD: RefCell<Option<World>> = const { RefCell::new(None) };
    static INJECT_DEPTH: Cell<u32> = const { Cell::new(0) };
}

pub fn current() -> u32 {
    CURRENT.with(|c| c.get())
}

#[derive(Debug, Clone, Copy, PartialEq, Eq)]
pub enum Sched {
    Random,
    /// the connection tasks run only when nothing else is runnable
    StarveConn,
    ConnFirst,
    /// most recently woken first
    Lifo,
    /// least recently woken first
    Fifo,
    /// world events (byte delivery) only when no task is runnable
    WorldLast,
}

#[derive(Debug, Clone, Copy, PartialEq, Eq)]
pub enum TaskKind {
    Conn,
    App,
}

pub struct TaskWaker {
    pub id: u32,
    pub woken: AtomicBool,
    pub cause: AtomicU32,
    pub woken_seq: AtomicU64,
}

thread_local! {
    static WAKE_SEQ: Cell<u64> = const { Cell::new(0) };
}

impl Wake for TaskWaker {
    fn wake(self: Arc<Self>) {
        self.wake_by_ref();
    }
    fn wake_by_ref(self: &Arc<Self>) {
        if !self.woken.swap(true, Ordering::SeqCst) {
            self.cause.store(current(), Ordering::SeqCst);
            let s = WAKE_SEQ.with(|c| {
                let v = c.get() + 1;
                c.set(v);
                v
            });
            self.woken_seq.store(s, Ordering::SeqCst);
        }
    }
}

pub struct Task {
    pub name: String,
    pub kind: TaskKind,
    fut: Option<Pin<Box<dyn Future<Output = ()>>>>,
    pub w: Arc<TaskWaker>,
    pub done: bool,
    pub polls: u64,
    /// consecutive polls caused only by the task waking itself, with no I/O and no API event in between
    pub self_streak: u32,
    pub max_self_streak: u32,
}

#[derive(Debug, Clone, Default)]
pub struct ExecStats {
    pub polls: u64,
    pub conn_polls: u64,
    pub world_events: u64,
    pub injected_polls: u64,
    pub wakes_by_other_task: u64,
    pub wakes_by_world: u64,
    pub wakes_by_self: u64,
    pub app_woken_by_conn: u64,
    pub conn_woken_by_app: u64,
    pub sched_fp: u64,
    pub panics: Vec<String>,
}

pub struct World {
    pub tasks: Vec<Task>,
    pub pipes: Vec<PipeState>,
    pub trace: Trace,
    pub sched: Sched,
    pub rng: Rng,
    pub stats: ExecStats,
    pub inject_prob: (u64, u64),
    pub inject_max: u32,
    /// probability that a write towards an endpoint whose I/O object is gone fails with
    /// BrokenPipe (otherwise the bytes are silently discarded, like a lingering close)
    pub gone_write_err: (u64, u64),
    /// a task panicked: h2's locks may be poisoned, stop the execution and leak the world
    pub poisoned: bool,
    /// scenario-level gate: handlers marked `respond_gate` wait until the script opens it
    pub gate_open: bool,
    pub gate_wakers: Vec<Waker>,
    /// tasks waiting for the rest of the world to become quiescent (scripted peers)
    pub idle_waiters: Vec<Waker>,
    /// activity counter: bumped by every I/O byte and API event; used by the busy-loop detector
    pub activity: u64,
}

pub fn install(seed: u64, sched: Sched) {
    let w = World {
        tasks: Vec::new(),
        pipes: Vec::new(),
        trace: Trace::default(),
        sched,
        rng: Rng::new(seed),
        stats: ExecStats::default(),
        inject_prob: (0, 1),
        inject_max: 0,
        gone_write_err: (1, 2),
        poisoned: false,
        gate_open: false,
        gate_wakers: Vec::new(),
        idle_waiters: Vec::new(),
        activity: 0,
    };
    WORLD.with(|c| *c.borrow_mut() = Some(w));
    CURRENT.with(|c| c.set(CAUSE_NONE));
    INJECT_DEPTH.with(|c| c.set(0));
}

pub fn uninstall() -> World {
    WORLD.with(|c| c.borrow_mut().take().expect("world installed"))
}

pub fn with<R>(f: impl FnOnce(&mut World) -> R) -> R {
    WORLD.with(|c| {
        let mut b = c.borrow_mut();
        f(b.as_mut().expect("world installed"))
    })
}

pub fn try_with<R>(f: impl FnOnce(&mut World) -> R) -> Option<R> {
    WORLD.with(|c| match c.try_borrow_mut() {
        Ok(mut b) => b.as_mut().map(f),
        Err(_) => None,
    })
}

/// Append an event to the trace; returns its logical time.
pub fn log(conn: u8, k: EvK) -> u64 {
    // (no world on this thread: the threaded engine keeps its own logs)
    try_with(|w| {
        w.activity += 1;
        w.trace.push(conn, k)
    })
    .unwrap_or(0)
}

pub fn now() -> u64 {
    try_with(|w| w.trace.now()).unwrap_or(0)
}

pub fn spawn(name: impl Into<String>, kind: TaskKind, fut: impl Future<Output = ()> + 'static) -> u32 {
    let name = name.into();
    with(|w| {
        let id = w.tasks.len() as u32;
        let tw = Arc::new(TaskWaker {
            id,
            woken: AtomicBool::new(true),
            cause: AtomicU32::new(CAUSE_INIT),
            woken_seq: AtomicU64::new(0),
        });
        w.tasks.push(Task {
            name,
            kind,
            fut: Some(Box::pin(fut)),
            w: tw,
            done: false,
            polls: 0,
            self_streak: 0,
            max_self_streak: 0,
        });
        id
    })
}

#[derive(Debug, Clone, Copy, PartialEq, Eq)]
enum Cand {
    Task(u32),
    World(usize, u8, u8), // pipe, dir, event kind
}

fn candidates(w: &World, include_conn: bool, include_world: bool) -> Vec<Cand> {
    let mut v = Vec::new();
    for t in &w.tasks {
        if !t.done && t.fut.is_some() && t.w.woken.load(Ordering::SeqCst) {
            if !include_conn && t.kind == TaskKind::Conn {
                continue;
            }
            v.push(Cand::Task(t.w.id));
        }
    }
    if include_world {
        for (pi, p) in w.pipes.iter().enumerate() {
            for d in 0..2u8 {
                for k in p.pending_events(d as usize) {
                    v.push(Cand::World(pi, d, k));
                }
            }
        }
    }
    v
}

fn choose(w: &mut World) -> Option<Cand> {
    let all = candidates(w, true, true);
    if all.is_empty() {
        return None;
    }
    let pick_random = |w: &mut World, v: &[Cand]| v[w.rng.usize_below(v.len())];
    let tasks: Vec<Cand> = all.iter().copied().filter(|c| matches!(c, Cand::Task(_))).collect();
    let is_conn = |w: &World, c: &Cand| match c {
        Cand::Task(id) => w.tasks[*id as usize].kind == TaskKind::Conn,
        _ => false,
    };
    let c = match w.sched {
        Sched::Random => pick_random(w, &all),
        Sched::StarveConn => {
            let non: Vec<Cand> = all.iter().copied().filter(|c| !is_conn(w, c)).collect();
            if non.is_empty() {
                pick_random(w, &all)
            } else {
                pick_random(w, &non)
            }
        }
        Sched::ConnFirst => {
            let cs: Vec<Cand> = all.iter().copied().filter(|c| is_conn(w, c)).collect();
            if cs.is_empty() || w.rng.chance(1, 8) {
                pick_random(w, &all)
            } else {
                pick_random(w, &cs)
            }
        }
        Sched::WorldLast => {
            if tasks.is_empty() {
                pick_random(w, &all)
            } else {
                pick_random(w, &tasks)
            }
        }
        Sched::Lifo | Sched::Fifo => {
            if tasks.is_empty() || w.rng.chance(1, 4) {
                pick_random(w, &all)
            } else {
                let key = |c: &Cand| match c {
                    Cand::Task(id) => w.tasks[*id as usize].w.woken_seq.load(Ordering::SeqCst),
                    _ => 0,
                };
                if w.sched == Sched::Lifo {
                    *tasks.iter().max_by_key(|c| key(c)).unwrap()
                } else {
                    *tasks.iter().min_by_key(|c| key(c)).unwrap()
                }
            }
        }
    };
    Some(c)
}

fn panic_message(p: Box<dyn std::any::Any + Send>) -> String {
    if let Some(s) = p.downcast_ref::<&str>() {
        s.to_string()
    } else if let Some(s) = p.downcast_ref::<String>() {
        s.clone()
    } else {
        "non-string panic".to_string()
    }
}

/// Poll one task (strictly: only called for tasks whose waker fired).
fn poll_task(id: u32, injected: bool) {
    let (mut fut, waker, cause, kind, act_before) = match with(|w| {
        let act = w.activity;
        let t = &mut w.tasks[id as usize];
        let fut = t.fut.take()?;
        t.w.woken.store(false, Ordering::SeqCst);
        let cause = t.w.cause.swap(CAUSE_NONE, Ordering::SeqCst);
        t.polls += 1;
        Some((fut, t.w.clone(), cause, t.kind, act))
    }) {
        Some(x) => x,
        None => return,
    };
    with(|w| {
        w.stats.polls += 1;
        if injected {
            w.stats.injected_polls += 1;
        }
        if kind == TaskKind::Conn {
            w.stats.conn_polls += 1;
        }
        if cause == id {
            w.stats.wakes_by_self += 1;
        } else if cause == CAUSE_WORLD {
            w.stats.wakes_by_world += 1;
        } else if cause < CAUSE_INIT {
            w.stats.wakes_by_other_task += 1;
            let ck = w.tasks[cause as usize].kind;
            if kind == TaskKind::App && ck == TaskKind::Conn {
                w.stats.app_woken_by_conn += 1;
            }
            if kind == TaskKind::Conn && ck == TaskKind::App {
                w.stats.conn_woken_by_app += 1;
            }
        }
        w.stats.sched_fp = w.stats.sched_fp.wrapping_mul(0x100000001b3) ^ (id as u64 + 1);
    });
    let prev = CURRENT.with(|c| c.replace(id));
    let wk = Waker::from(waker);
    let mut cx = Context::from_waker(&wk);
    let res = catch_unwind(AssertUnwindSafe(|| fut.as_mut().poll(&mut cx)));
    CURRENT.with(|c| c.set(prev));
    match res {
        Ok(Poll::Ready(())) => {
            // drop the future (may run h2 Drop impls) under a catcher as well
            let r = catch_unwind(AssertUnwindSafe(move || drop(fut)));
            with(|w| {
                w.tasks[id as usize].done = true;
                if let Err(p) = r {
                    let name = w.tasks[id as usize].name.clone();
                    w.stats.panics.push(format!("drop of task {}: {}", name, panic_message(p)));
                }
            });
        }
        Ok(Poll::Pending) => {
            with(|w| {
                let act = w.activity;
                let t = &mut w.tasks[id as usize];
                t.fut = Some(fut);
                // busy-loop detector: self-caused poll with no observable activity
                if cause == id && act == act_before {
                    t.self_streak += 1;
                    if t.self_streak > t.max_self_streak {
                        t.max_self_streak = t.self_streak;
                    }
                } else {
                    t.self_streak = 0;
                }
            });
        }
        Err(p) => {
            let msg = panic_message(p);
            // h2's shared state may be poisoned now: running the destructors of the handles this
            // future owns would panic inside panics (abort). Leak them; the execution is over anyway.
            std::mem::forget(fut);
            with(|w| {
                let name = w.tasks[id as usize].name.clone();
                w.tasks[id as usize].done = true;
                w.stats.panics.push(format!("task {}: {}", name, msg));
                // the test-only drop assertions of h2's `unstable` feature fire while the shared state
                // is being destroyed, not while it is locked: nothing is poisoned, keep running
                if !(msg.contains("self.slab.is_empty()") || msg.contains("!self.has_streams()")) {
                    w.poisoned = true;
                }
                w.trace.push(0, EvK::Note(format!("PANIC in task {}: {}", name, msg)));
            });
        }
    }
}

fn world_event(pi: usize, d: u8, k: u8) {
    let prev = CURRENT.with(|c| c.replace(CAUSE_WORLD));
    let wk = with(|w| {
        w.stats.world_events += 1;
        w.stats.sched_fp = w.stats.sched_fp.wrapping_mul(0x100000001b3) ^ (0x8000 + (pi as u64) * 16 + (d as u64) * 4 + k as u64);
        let World { pipes, rng, trace, .. } = w;
        pipes[pi].fire_event(d as usize, k, rng, trace)
    });
    if let Some(wk) = wk {
        wk.wake();
    }
    CURRENT.with(|c| c.set(prev));
}

#[derive(Debug, Clone, Copy, PartialEq, Eq)]
pub enum RunEnd {
    Quiescent,
    Budget,
}

/// Run until quiescence (no runnable task, no world event) or until `max_steps`.
pub fn run(max_steps: u64) -> RunEnd {
    let mut steps = 0u64;
    loop {
        if with(|w| w.poisoned) {
            return RunEnd::Quiescent;
        }
        let c = with(choose);
        match c {
            None => {
                // nothing can run: tasks that asked to be told about this moment continue now
                let ws = with(|w| std::mem::take(&mut w.idle_waiters));
                if ws.is_empty() {
                    return RunEnd::Quiescent;
                }
                let prev = CURRENT.with(|c| c.replace(CAUSE_WORLD));
                for w in ws {
                    w.wake();
                }
                CURRENT.with(|c| c.set(prev));
            }
            Some(Cand::Task(id)) => poll_task(id, false),
            Some(Cand::World(pi, d, k)) => world_event(pi, d, k),
        }
        steps += 1;
        if steps >= max_steps {
            return RunEnd::Budget;
        }
    }
}

/// Liberal variant used only for triage: wake every task, then run.
pub fn wake_all() {
    with(|w| {
        for t in &w.tasks {
            if !t.done {
                t.w.woken.store(true, Ordering::SeqCst);
                t.w.cause.store(CAUSE_WORLD, Ordering::SeqCst);
            }
        }
    });
}

/// Wakes every unfinished application task (not the connection tasks).
pub fn wake_app_tasks() {
    with(|w| {
        for t in &w.tasks {
            if !t.done && t.kind == TaskKind::App {
                t.w.woken.store(true, Ordering::SeqCst);
                t.w.cause.store(CAUSE_WORLD, Ordering::SeqCst);
            }
        }
    });
}

/// Called from transport callbacks inside a connection poll: run up to k other
/// runnable application tasks inline (they execute exactly where another
/// thread could: h2 holds no lock while it is inside the transport).
pub fn maybe_inject() {
    if INJECT_DEPTH.with(|c| c.get()) > 0 {
        return;
    }
    let k = match try_with(|w| {
        if w.inject_max == 0 || !w.rng.chance(w.inject_prob.0, w.inject_prob.1) {
            0
        } else {
            1 + w.rng.below(w.inject_max as u64) as u32
        }
    }) {
        Some(k) => k,
        None => return,
    };
    if k == 0 {
        return;
    }
    INJECT_DEPTH.with(|c| c.set(1));
    for _ in 0..k {
        let cand = with(|w| {
            let v = candidates(w, false, false);
            if v.is_empty() {
                None
            } else {
                Some(v[w.rng.usize_below(v.len())])
            }
        });
        match cand {
            Some(Cand::Task(id)) => {
                let by = current();
                with(|w| {
                    w.trace.push(0, EvK::Inject { by_task: by, task: id });
                });
                poll_task(id, true);
            }
            _ => break,
        }
    }
    INJECT_DEPTH.with(|c| c.set(0));
}

pub fn open_gate() {
    let ws = with(|w| {
        w.gate_open = true;
        std::mem::take(&mut w.gate_wakers)
    });
    for w in ws {
        w.wake();
    }
}

/// Resolves once the scenario gate is open.
pub fn poll_gate(cx: &mut Context<'_>) -> Poll<()> {
    with(|w| {
        if w.gate_open {
            Poll::Ready(())
        } else {
            w.gate_wakers.push(cx.waker().clone());
            Poll::Pending
        }
    })
}

/// Future body: resolves the next time the whole world (everything but parked idle-waiters) is quiescent.
pub fn poll_world_idle(cx: &mut Context<'_>, armed: &mut bool) -> Poll<()> {
    if *armed {
        return Poll::Ready(());
    }
    *armed = true;
    with(|w| w.idle_waiters.push(cx.waker().clone()));
    Poll::Pending
}

/// True when nothing but the calling task could run: no other runnable task, no world event.
/// Lets a scripted peer wait until the endpoint under test has finished reacting.
pub fn others_idle() -> bool {
    let me = current();
    with(|w| candidates(w, true, true).into_iter().all(|c| matches!(c, Cand::Task(id) if id == me)))
}

pub fn push_ev(conn: u8, k: EvK) -> u64 {
    log(conn, k)
}

pub fn events_len() -> usize {
    with(|w| w.trace.evs.len())
}

pub fn task_summary() -> Vec<(String, bool, u64, u32)> {
    with(|w| {
        w.tasks
            .iter()
            .map(|t| (t.name.clone(), t.done, t.polls, t.max_self_streak))
            .collect()
    })
}

#[allow(dead_code)]
pub fn dump_tail(n: usize) -> Vec<String> {
    with(|w| {
        let evs: &Vec<Ev> = &w.trace.evs;
        let start = evs.len().saturating_sub(n);
        evs[start..].iter().map(|e| w.trace.fmt_ev(e)).collect()
    })
}
