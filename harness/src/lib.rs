//! Verification harness for hyperium/h2: runtime monitoring.
#![allow(clippy::too_many_arguments, clippy::type_complexity, clippy::new_without_default)]

pub mod apps;
pub mod engine;
pub mod mon;
#[cfg(not(miri))]
pub mod nghttp2;
pub mod report;
pub mod rng;
pub mod sim;
pub mod trace;
pub mod wire;
