//! The merged event log all monitors consume. One logical clock `t`,
//! incremented on every record.

use crate::sim::FaultKind;

#[derive(Debug, Clone, Copy, PartialEq, Eq, Hash, PartialOrd, Ord)]
pub enum Side {
    Client,
    Server,
}

impl Side {
    pub fn other(self) -> Side {
        match self {
            Side::Client => Side::Server,
            Side::Server => Side::Client,
        }
    }
    /// direction index this side writes
    pub fn wdir(self) -> usize {
        match self {
            Side::Client => 0,
            Side::Server => 1,
        }
    }
    pub fn name(self) -> &'static str {
        match self {
            Side::Client => "client",
            Side::Server => "server",
        }
    }
}

#[derive(Debug, Clone, Copy, PartialEq, Eq, Hash)]
pub enum Op {
    // client
    Ready,
    SendRequest,
    Response,
    Informational,
    PushPromise,
    PushedResponse,
    // server
    Accept,
    SendResponse,
    SendInformational,
    PushRequest,
    PollClosed,
    GracefulShutdown,
    AbruptShutdown,
    // send stream
    Reserve,
    Capacity,
    PollCapacity,
    SendData,
    SendTrailers,
    SendReset,
    PollReset,
    DropSend,
    // recv stream
    PollData,
    PollTrailers,
    Release,
    IsEndStream,
    DropRecv,
    CleanEnd,
    // connection
    Ping,
    SetTargetWindow,
    SetInitialWindow,
    ConnDone,
    DropConn,
    DropSendRequest,
    CloneSendRequest,
    DropResponseFuture,
    DropSendResponse,
    Handshake,
}

#[derive(Debug, Clone, Copy, PartialEq, Eq)]
pub enum Phase {
    Call,
    /// returned Ready / returned from a synchronous call
    Ret,
}

#[derive(Debug, Clone, Default, PartialEq, Eq)]
pub struct Msg {
    pub method: Option<String>,
    pub uri: Option<String>,
    pub status: Option<u16>,
    pub protocol: Option<String>,
    pub version: Option<String>,
    /// ordered (name, value)
    pub fields: Vec<(String, Vec<u8>)>,
}

impl Msg {
    pub fn field(&self, name: &str) -> Option<&[u8]> {
        self.fields.iter().find(|(n, _)| n == name).map(|(_, v)| v.as_slice())
    }
}

#[derive(Debug, Clone, Default, PartialEq, Eq)]
pub struct ErrInfo {
    pub reason: Option<u32>,
    pub is_io: bool,
    pub io_kind: Option<String>,
    pub is_go_away: bool,
    pub is_reset: bool,
    pub is_remote: bool,
    pub is_library: bool,
    pub display: String,
}

impl ErrInfo {
    pub fn from(e: &h2::Error) -> ErrInfo {
        ErrInfo {
            reason: e.reason().map(u32::from),
            is_io: e.is_io(),
            io_kind: e.get_io().map(|i| format!("{:?}", i.kind())),
            is_go_away: e.is_go_away(),
            is_reset: e.is_reset(),
            is_remote: e.is_remote(),
            is_library: e.is_library(),
            display: e.to_string(),
        }
    }
}

#[derive(Debug, Clone, PartialEq, Eq)]
pub enum Res {
    None,
    Ok,
    /// Ready(None) / end of stream
    End,
    Err(Box<ErrInfo>),
    /// user-visible numeric value
    Val(u64),
}

impl Res {
    pub fn is_err(&self) -> bool {
        matches!(self, Res::Err(_))
    }
    pub fn err(&self) -> Option<&ErrInfo> {
        match self {
            Res::Err(e) => Some(e),
            _ => None,
        }
    }
}

#[derive(Debug, Clone)]
pub struct Api {
    pub side: Side,
    /// harness stream tag (0 = connection-level / unknown)
    pub tag: u32,
    /// wire stream id when known
    pub sid: u32,
    pub op: Op,
    pub phase: Phase,
    pub op_id: u32,
    pub a: u64,
    pub b: u64,
    pub flag: bool,
    pub res: Res,
    pub msg: Option<Box<Msg>>,
}

#[derive(Debug, Clone)]
pub enum EvK {
    /// frame `idx` of direction `dir` completely written
    W { dir: u8, idx: u32 },
    /// frame `idx` of direction `dir` completely read by the receiving endpoint
    R { dir: u8, idx: u32 },
    ReadOff { dir: u8, total: u64 },
    Deliver { dir: u8, n: u32 },
    EofVisible { dir: u8, reset: bool },
    Shutdown { dir: u8 },
    Fault { dir: u8, kind: FaultKind, at: u64 },
    IoDropped { side: Side },
    Api(Box<Api>),
    /// result of a connection poll: (side, ready?)
    ConnPoll { side: Side, begin: bool },
    Inject { by_task: u32, task: u32 },
    /// selected snapshot facts recorded on change
    SnapFact { side: Side, what: &'static str, v: i64 },
    Note(String),
}

#[derive(Debug, Clone)]
pub struct Ev {
    pub t: u64,
    pub conn: u8,
    pub k: EvK,
}

#[derive(Debug, Default)]
pub struct Trace {
    pub evs: Vec<Ev>,
    t: u64,
    next_op: u32,
}

impl Trace {
    pub fn push(&mut self, conn: u8, k: EvK) -> u64 {
        self.t += 1;
        self.evs.push(Ev { t: self.t, conn, k });
        self.t
    }
    pub fn now(&self) -> u64 {
        self.t
    }
    pub fn next_op_id(&mut self) -> u32 {
        self.next_op += 1;
        self.next_op
    }
    pub fn fmt_ev(&self, e: &Ev) -> String {
        format!("t={} c={} {:?}", e.t, e.conn, e.k)
    }
}
