//! Independent RFC 9113 frame parser and serializer (no code shared with h2).

use super::hpack_ref::{Field, HErr, RefDecoder, Repr};

pub const PREFACE: &[u8] = b"PRI * HTTP/2.0\r\n\r\nSM\r\n\r\n";

pub const T_DATA: u8 = 0;
pub const T_HEADERS: u8 = 1;
pub const T_PRIORITY: u8 = 2;
pub const T_RST: u8 = 3;
pub const T_SETTINGS: u8 = 4;
pub const T_PUSH_PROMISE: u8 = 5;
pub const T_PING: u8 = 6;
pub const T_GOAWAY: u8 = 7;
pub const T_WINDOW_UPDATE: u8 = 8;
pub const T_CONTINUATION: u8 = 9;

pub const F_END_STREAM: u8 = 0x1;
pub const F_ACK: u8 = 0x1;
pub const F_END_HEADERS: u8 = 0x4;
pub const F_PADDED: u8 = 0x8;
pub const F_PRIORITY: u8 = 0x20;

pub const S_HEADER_TABLE_SIZE: u16 = 1;
pub const S_ENABLE_PUSH: u16 = 2;
pub const S_MAX_CONCURRENT_STREAMS: u16 = 3;
pub const S_INITIAL_WINDOW_SIZE: u16 = 4;
pub const S_MAX_FRAME_SIZE: u16 = 5;
pub const S_MAX_HEADER_LIST_SIZE: u16 = 6;
pub const S_ENABLE_CONNECT_PROTOCOL: u16 = 8;

pub fn type_name(t: u8) -> &'static str {
    match t {
        0 => "DATA",
        1 => "HEADERS",
        2 => "PRIORITY",
        3 => "RST_STREAM",
        4 => "SETTINGS",
        5 => "PUSH_PROMISE",
        6 => "PING",
        7 => "GOAWAY",
        8 => "WINDOW_UPDATE",
        9 => "CONTINUATION",
        _ => "UNKNOWN",
    }
}

#[derive(Debug, Clone, PartialEq, Eq)]
pub struct RawFrame {
    pub typ: u8,
    pub flags: u8,
    pub sid: u32,
    pub reserved_bit: bool,
    pub payload: Vec<u8>,
    pub off_start: u64,
    pub off_end: u64,
}

#[derive(Debug, Clone, PartialEq, Eq)]
pub struct HeaderBlock {
    pub fields: Vec<Field>,
    pub reprs: Vec<Repr>,
    pub size_updates: Vec<u64>,
    pub n_continuations: u32,
    pub hpack_error: Option<String>,
    pub block_len: usize,
}

impl HeaderBlock {
    pub fn get(&self, name: &str) -> Option<&[u8]> {
        self.fields
            .iter()
            .find(|(n, _)| n == name.as_bytes())
            .map(|(_, v)| v.as_slice())
    }
    pub fn get_str(&self, name: &str) -> Option<String> {
        self.get(name).map(|v| String::from_utf8_lossy(v).to_string())
    }
    pub fn status(&self) -> Option<u16> {
        self.get_str(":status").and_then(|s| s.parse().ok())
    }
}

#[derive(Debug, Clone, PartialEq, Eq)]
pub enum Body {
    Data {
        /// flow-controlled length (payload incl. padding)
        flow_len: u32,
        data: Vec<u8>,
        pad: Option<u8>,
    },
    /// A complete header block (HEADERS + CONTINUATIONs). Emitted at END_HEADERS.
    Headers {
        block: HeaderBlock,
        priority: Option<(bool, u32, u8)>,
        pad: Option<u8>,
    },
    PushPromise {
        promised: u32,
        block: HeaderBlock,
        pad: Option<u8>,
    },
    Priority {
        exclusive: bool,
        dep: u32,
        weight: u8,
    },
    Rst {
        code: u32,
    },
    Settings {
        ack: bool,
        entries: Vec<(u16, u32)>,
    },
    Ping {
        ack: bool,
        payload: [u8; 8],
    },
    GoAway {
        last: u32,
        code: u32,
        debug: Vec<u8>,
    },
    WindowUpdate {
        inc: u32,
    },
    Unknown,
    /// The frame violates a size/format rule an RFC 9113 parser must reject.
    Malformed(String),
}

/// A logical frame as seen by the monitors. For header blocks `off_start` is
/// the start of the HEADERS/PUSH_PROMISE frame and `off_end` the end of the
/// last CONTINUATION; `parts` lists the constituent raw frames.
#[derive(Debug, Clone, PartialEq, Eq)]
pub struct Frame {
    pub typ: u8,
    pub flags: u8,
    pub sid: u32,
    pub len: u32,
    pub off_start: u64,
    pub off_end: u64,
    pub body: Body,
    /// (type, flags, payload length) of every raw frame making up this logical frame
    pub parts: Vec<(u8, u8, u32)>,
    /// a frame of another kind was interleaved in the header block
    pub interleaved: bool,
}

impl Frame {
    pub fn end_stream(&self) -> bool {
        match self.typ {
            T_DATA | T_HEADERS => self.flags & F_END_STREAM != 0,
            _ => false,
        }
    }
    pub fn short(&self) -> String {
        match &self.body {
            Body::Data { flow_len, .. } => format!(
                "DATA[s={} len={}{}]",
                self.sid,
                flow_len,
                if self.end_stream() { " ES" } else { "" }
            ),
            Body::Headers { block, .. } => format!(
                "HEADERS[s={} n={}{}{} cont={}]",
                self.sid,
                block.fields.len(),
                if self.end_stream() { " ES" } else { "" },
                block
                    .get_str(":status")
                    .map(|s| format!(" st={}", s))
                    .unwrap_or_default(),
                block.n_continuations
            ),
            Body::PushPromise { promised, .. } => format!("PUSH_PROMISE[s={} p={}]", self.sid, promised),
            Body::Priority { .. } => format!("PRIORITY[s={}]", self.sid),
            Body::Rst { code } => format!("RST[s={} code={}]", self.sid, code),
            Body::Settings { ack, entries } => format!("SETTINGS[ack={} {:?}]", ack, entries),
            Body::Ping { ack, .. } => format!("PING[ack={}]", ack),
            Body::GoAway { last, code, debug } => format!("GOAWAY[last={} code={} dbg={}]", last, code, debug.len()),
            Body::WindowUpdate { inc } => format!("WU[s={} inc={}]", self.sid, inc),
            Body::Unknown => format!("UNKNOWN[t={} s={}]", self.typ, self.sid),
            Body::Malformed(m) => format!("MALFORMED[t={} s={} {}]", self.typ, self.sid, m),
        }
    }
}

/// Incremental byte-stream → raw frames.
#[derive(Debug, Clone)]
pub struct RawParser {
    buf: Vec<u8>,
    consumed: u64,
    expect_preface: bool,
    pub preface_ok: Option<bool>,
}

impl RawParser {
    pub fn new(expect_preface: bool) -> RawParser {
        RawParser {
            buf: Vec::new(),
            consumed: 0,
            expect_preface,
            preface_ok: None,
        }
    }

    pub fn buffered(&self) -> usize {
        self.buf.len()
    }

    pub fn feed(&mut self, bytes: &[u8], out: &mut Vec<RawFrame>) {
        self.buf.extend_from_slice(bytes);
        let mut pos = 0usize;
        loop {
            if self.expect_preface {
                if self.buf.len() - pos < PREFACE.len() {
                    // early mismatch detection
                    if self.buf[pos..] != PREFACE[..self.buf.len() - pos] {
                        self.preface_ok = Some(false);
                        self.expect_preface = false;
                        continue;
                    }
                    break;
                }
                self.preface_ok = Some(&self.buf[pos..pos + PREFACE.len()] == PREFACE);
                self.expect_preface = false;
                if self.preface_ok == Some(true) {
                    pos += PREFACE.len();
                }
                continue;
            }
            let avail = self.buf.len() - pos;
            if avail < 9 {
                break;
            }
            let h = &self.buf[pos..pos + 9];
            let len = ((h[0] as usize) << 16) | ((h[1] as usize) << 8) | h[2] as usize;
            if avail < 9 + len {
                break;
            }
            let sid_raw = u32::from_be_bytes([h[5], h[6], h[7], h[8]]);
            let f = RawFrame {
                typ: h[3],
                flags: h[4],
                sid: sid_raw & 0x7fff_ffff,
                reserved_bit: sid_raw & 0x8000_0000 != 0,
                payload: self.buf[pos + 9..pos + 9 + len].to_vec(),
                off_start: self.consumed + pos as u64,
                off_end: self.consumed + (pos + 9 + len) as u64,
            };
            out.push(f);
            pos += 9 + len;
        }
        self.buf.drain(..pos);
        self.consumed += pos as u64;
    }
}

fn strip_padding(flags: u8, p: &[u8]) -> Result<(Option<u8>, &[u8]), String> {
    if flags & F_PADDED == 0 {
        return Ok((None, p));
    }
    if p.is_empty() {
        return Err("padded frame without pad length".into());
    }
    let pad = p[0] as usize;
    let rest = &p[1..];
    if pad > rest.len() {
        return Err("padding exceeds payload".into());
    }
    Ok((Some(p[0]), &rest[..rest.len() - pad]))
}

struct OpenBlock {
    typ: u8,
    flags: u8,
    sid: u32,
    off_start: u64,
    promised: u32,
    priority: Option<(bool, u32, u8)>,
    pad: Option<u8>,
    fragment: Vec<u8>,
    parts: Vec<(u8, u8, u32)>,
    interleaved: bool,
    first_len: u32,
}

/// Raw frames → logical frames, with header block assembly and HPACK decoding
/// by the reference decoder (permissive about size-update bounds; the bound is
/// judged by the C10/C14 monitors).
pub struct FrameParser {
    pub raw: RawParser,
    pub hpack: RefDecoder,
    open: Option<OpenBlock>,
    scratch: Vec<RawFrame>,
    /// set once HPACK state is lost (after a decoding error everything later is unreliable)
    pub hpack_broken: bool,
}

impl FrameParser {
    pub fn new(expect_preface: bool) -> FrameParser {
        FrameParser {
            raw: RawParser::new(expect_preface),
            hpack: RefDecoder::new(4096),
            open: None,
            scratch: Vec::new(),
            hpack_broken: false,
        }
    }

    pub fn in_header_block(&self) -> bool {
        self.open.is_some()
    }

    /// stream that the unfinished header block (if any) opens: the stream of a HEADERS block, the promised
    /// stream of a PUSH_PROMISE block
    pub fn unfinished_block_opens(&self) -> Option<u32> {
        self.open.as_ref().map(|o| if o.typ == 5 { o.promised } else { o.sid })
    }

    pub fn feed(&mut self, bytes: &[u8], out: &mut Vec<Frame>) {
        let mut raws = std::mem::take(&mut self.scratch);
        raws.clear();
        self.raw.feed(bytes, &mut raws);
        for r in raws.drain(..) {
            self.on_raw(r, out);
        }
        self.scratch = raws;
    }

    fn finish_block(&mut self, ob: OpenBlock, off_end: u64, out: &mut Vec<Frame>) {
        let mut hb = HeaderBlock {
            fields: vec![],
            reprs: vec![],
            size_updates: vec![],
            n_continuations: (ob.parts.len() as u32).saturating_sub(1),
            hpack_error: None,
            block_len: ob.fragment.len(),
        };
        if self.hpack_broken {
            hb.hpack_error = Some("hpack state lost earlier".into());
        } else {
            match self.hpack.decode(&ob.fragment, false, false) {
                Ok(d) => {
                    hb.fields = d.fields;
                    hb.reprs = d.reprs;
                    hb.size_updates = d.stats.size_updates;
                }
                Err(e) => {
                    let e: HErr = e;
                    hb.hpack_error = Some(format!("{:?}", e));
                    self.hpack_broken = true;
                }
            }
        }
        let body = if ob.typ == T_HEADERS {
            Body::Headers {
                block: hb,
                priority: ob.priority,
                pad: ob.pad,
            }
        } else {
            Body::PushPromise {
                promised: ob.promised,
                block: hb,
                pad: ob.pad,
            }
        };
        out.push(Frame {
            typ: ob.typ,
            flags: ob.flags,
            sid: ob.sid,
            len: ob.first_len,
            off_start: ob.off_start,
            off_end,
            body,
            parts: ob.parts,
            interleaved: ob.interleaved,
        });
    }

    fn on_raw(&mut self, r: RawFrame, out: &mut Vec<Frame>) {
        let len = r.payload.len() as u32;
        let part = (r.typ, r.flags, len);
        if let Some(mut ob) = self.open.take() {
            if r.typ == T_CONTINUATION && r.sid == ob.sid {
                ob.fragment.extend_from_slice(&r.payload);
                ob.parts.push(part);
                if r.flags & F_END_HEADERS != 0 {
                    ob.flags |= F_END_HEADERS;
                    self.finish_block(ob, r.off_end, out);
                } else {
                    self.open = Some(ob);
                }
                return;
            }
            // something else inside a header block: protocol violation by the writer
            ob.interleaved = true;
            self.open = Some(ob);
            // fall through and report the frame itself too
        }
        let mk = |body: Body| Frame {
            typ: r.typ,
            flags: r.flags,
            sid: r.sid,
            len,
            off_start: r.off_start,
            off_end: r.off_end,
            body,
            parts: vec![part],
            interleaved: false,
        };
        let p = &r.payload[..];
        match r.typ {
            T_DATA => match strip_padding(r.flags, p) {
                Ok((pad, data)) => out.push(mk(Body::Data {
                    flow_len: len,
                    data: data.to_vec(),
                    pad,
                })),
                Err(e) => out.push(mk(Body::Malformed(e))),
            },
            T_HEADERS | T_PUSH_PROMISE => {
                let (pad, mut rest) = match strip_padding(r.flags, p) {
                    Ok(x) => x,
                    Err(e) => {
                        out.push(mk(Body::Malformed(e)));
                        return;
                    }
                };
                let mut priority = None;
                let mut promised = 0;
                if r.typ == T_HEADERS && r.flags & F_PRIORITY != 0 {
                    if rest.len() < 5 {
                        out.push(mk(Body::Malformed("short priority".into())));
                        return;
                    }
                    let d = u32::from_be_bytes([rest[0], rest[1], rest[2], rest[3]]);
                    priority = Some((d & 0x8000_0000 != 0, d & 0x7fff_ffff, rest[4]));
                    rest = &rest[5..];
                }
                if r.typ == T_PUSH_PROMISE {
                    if rest.len() < 4 {
                        out.push(mk(Body::Malformed("short push promise".into())));
                        return;
                    }
                    promised = u32::from_be_bytes([rest[0], rest[1], rest[2], rest[3]]) & 0x7fff_ffff;
                    rest = &rest[4..];
                }
                let ob = OpenBlock {
                    typ: r.typ,
                    flags: r.flags,
                    sid: r.sid,
                    off_start: r.off_start,
                    promised,
                    priority,
                    pad,
                    fragment: rest.to_vec(),
                    parts: vec![part],
                    interleaved: false,
                    first_len: len,
                };
                if r.flags & F_END_HEADERS != 0 {
                    self.finish_block(ob, r.off_end, out);
                } else {
                    self.open = Some(ob);
                }
            }
            T_PRIORITY => {
                if p.len() != 5 {
                    out.push(mk(Body::Malformed("PRIORITY len != 5".into())));
                } else {
                    let d = u32::from_be_bytes([p[0], p[1], p[2], p[3]]);
                    out.push(mk(Body::Priority {
                        exclusive: d & 0x8000_0000 != 0,
                        dep: d & 0x7fff_ffff,
                        weight: p[4],
                    }));
                }
            }
            T_RST => {
                if p.len() != 4 {
                    out.push(mk(Body::Malformed("RST_STREAM len != 4".into())));
                } else {
                    out.push(mk(Body::Rst {
                        code: u32::from_be_bytes([p[0], p[1], p[2], p[3]]),
                    }));
                }
            }
            T_SETTINGS => {
                let ack = r.flags & F_ACK != 0;
                if p.len() % 6 != 0 || (ack && !p.is_empty()) {
                    out.push(mk(Body::Malformed("SETTINGS size".into())));
                } else {
                    let entries = p
                        .chunks(6)
                        .map(|c| {
                            (
                                u16::from_be_bytes([c[0], c[1]]),
                                u32::from_be_bytes([c[2], c[3], c[4], c[5]]),
                            )
                        })
                        .collect();
                    out.push(mk(Body::Settings { ack, entries }));
                }
            }
            T_PING => {
                if p.len() != 8 {
                    out.push(mk(Body::Malformed("PING len != 8".into())));
                } else {
                    let mut payload = [0u8; 8];
                    payload.copy_from_slice(p);
                    out.push(mk(Body::Ping {
                        ack: r.flags & F_ACK != 0,
                        payload,
                    }));
                }
            }
            T_GOAWAY => {
                if p.len() < 8 {
                    out.push(mk(Body::Malformed("GOAWAY len < 8".into())));
                } else {
                    out.push(mk(Body::GoAway {
                        last: u32::from_be_bytes([p[0], p[1], p[2], p[3]]) & 0x7fff_ffff,
                        code: u32::from_be_bytes([p[4], p[5], p[6], p[7]]),
                        debug: p[8..].to_vec(),
                    }));
                }
            }
            T_WINDOW_UPDATE => {
                if p.len() != 4 {
                    out.push(mk(Body::Malformed("WINDOW_UPDATE len != 4".into())));
                } else {
                    out.push(mk(Body::WindowUpdate {
                        inc: u32::from_be_bytes([p[0], p[1], p[2], p[3]]) & 0x7fff_ffff,
                    }));
                }
            }
            T_CONTINUATION => {
                out.push(mk(Body::Malformed("CONTINUATION outside header block".into())));
            }
            _ => out.push(mk(Body::Unknown)),
        }
    }
}

// ===== serializer =====

pub fn frame_header(len: usize, typ: u8, flags: u8, sid: u32, dst: &mut Vec<u8>) {
    dst.push((len >> 16) as u8);
    dst.push((len >> 8) as u8);
    dst.push(len as u8);
    dst.push(typ);
    dst.push(flags);
    dst.extend_from_slice(&sid.to_be_bytes());
}

pub fn raw_frame(typ: u8, flags: u8, sid: u32, payload: &[u8], dst: &mut Vec<u8>) {
    frame_header(payload.len(), typ, flags, sid, dst);
    dst.extend_from_slice(payload);
}

pub fn settings(entries: &[(u16, u32)], dst: &mut Vec<u8>) {
    let mut p = Vec::with_capacity(entries.len() * 6);
    for (id, v) in entries {
        p.extend_from_slice(&id.to_be_bytes());
        p.extend_from_slice(&v.to_be_bytes());
    }
    raw_frame(T_SETTINGS, 0, 0, &p, dst);
}

pub fn settings_ack(dst: &mut Vec<u8>) {
    raw_frame(T_SETTINGS, F_ACK, 0, &[], dst);
}

pub fn ping(ack: bool, payload: [u8; 8], dst: &mut Vec<u8>) {
    raw_frame(T_PING, if ack { F_ACK } else { 0 }, 0, &payload, dst);
}

pub fn window_update(sid: u32, inc: u32, dst: &mut Vec<u8>) {
    raw_frame(T_WINDOW_UPDATE, 0, sid, &inc.to_be_bytes(), dst);
}

pub fn rst(sid: u32, code: u32, dst: &mut Vec<u8>) {
    raw_frame(T_RST, 0, sid, &code.to_be_bytes(), dst);
}

pub fn goaway(last: u32, code: u32, debug: &[u8], dst: &mut Vec<u8>) {
    let mut p = Vec::new();
    p.extend_from_slice(&last.to_be_bytes());
    p.extend_from_slice(&code.to_be_bytes());
    p.extend_from_slice(debug);
    raw_frame(T_GOAWAY, 0, 0, &p, dst);
}

pub fn priority(sid: u32, exclusive: bool, dep: u32, weight: u8, dst: &mut Vec<u8>) {
    let mut p = Vec::new();
    let d = dep | if exclusive { 0x8000_0000 } else { 0 };
    p.extend_from_slice(&d.to_be_bytes());
    p.push(weight);
    raw_frame(T_PRIORITY, 0, sid, &p, dst);
}

pub fn data(sid: u32, payload: &[u8], eos: bool, pad: Option<u8>, dst: &mut Vec<u8>) {
    let mut flags = if eos { F_END_STREAM } else { 0 };
    match pad {
        None => raw_frame(T_DATA, flags, sid, payload, dst),
        Some(n) => {
            flags |= F_PADDED;
            let mut p = Vec::with_capacity(payload.len() + 1 + n as usize);
            p.push(n);
            p.extend_from_slice(payload);
            p.extend(std::iter::repeat(0).take(n as usize));
            raw_frame(T_DATA, flags, sid, &p, dst);
        }
    }
}

/// HEADERS (+ CONTINUATION) from an already encoded block. `first_max` and
/// `cont_max` bound the fragment sizes; `cont_max == 0` means no split.
#[allow(clippy::too_many_arguments)]
pub fn headers(
    sid: u32,
    block: &[u8],
    eos: bool,
    pad: Option<u8>,
    prio: Option<(bool, u32, u8)>,
    first_max: usize,
    cont_max: usize,
    dst: &mut Vec<u8>,
) {
    let mut flags = if eos { F_END_STREAM } else { 0 };
    let mut p = Vec::new();
    if let Some(n) = pad {
        flags |= F_PADDED;
        p.push(n);
    }
    if let Some((ex, dep, w)) = prio {
        flags |= F_PRIORITY;
        let d = dep | if ex { 0x8000_0000 } else { 0 };
        p.extend_from_slice(&d.to_be_bytes());
        p.push(w);
    }
    let first = if cont_max == 0 { block.len() } else { first_max.min(block.len()) };
    p.extend_from_slice(&block[..first]);
    if let Some(n) = pad {
        p.extend(std::iter::repeat(0).take(n as usize));
    }
    let mut rest = &block[first..];
    if rest.is_empty() && cont_max == 0 {
        flags |= F_END_HEADERS;
    } else if rest.is_empty() {
        // allow an explicit empty CONTINUATION when cont_max > 0 and first_max covered all:
        flags |= F_END_HEADERS;
    }
    raw_frame(T_HEADERS, flags, sid, &p, dst);
    while !rest.is_empty() {
        let n = cont_max.max(1).min(rest.len());
        let last = n == rest.len();
        raw_frame(T_CONTINUATION, if last { F_END_HEADERS } else { 0 }, sid, &rest[..n], dst);
        rest = &rest[n..];
    }
}

pub fn push_promise(
    sid: u32,
    promised: u32,
    block: &[u8],
    pad: Option<u8>,
    first_max: usize,
    cont_max: usize,
    dst: &mut Vec<u8>,
) {
    let mut flags = 0;
    let mut p = Vec::new();
    if let Some(n) = pad {
        flags |= F_PADDED;
        p.push(n);
    }
    p.extend_from_slice(&promised.to_be_bytes());
    let first = if cont_max == 0 { block.len() } else { first_max.min(block.len()) };
    p.extend_from_slice(&block[..first]);
    if let Some(n) = pad {
        p.extend(std::iter::repeat(0).take(n as usize));
    }
    let mut rest = &block[first..];
    if rest.is_empty() {
        flags |= F_END_HEADERS;
    }
    raw_frame(T_PUSH_PROMISE, flags, sid, &p, dst);
    while !rest.is_empty() {
        let n = cont_max.max(1).min(rest.len());
        let last = n == rest.len();
        raw_frame(T_CONTINUATION, if last { F_END_HEADERS } else { 0 }, sid, &rest[..n], dst);
        rest = &rest[n..];
    }
}

#[cfg(test)]
mod tests {
    use super::*;

    #[test]
    fn roundtrip_basic() {
        let mut bytes = PREFACE.to_vec();
        settings(&[(S_INITIAL_WINDOW_SIZE, 100), (S_MAX_FRAME_SIZE, 16384)], &mut bytes);
        settings_ack(&mut bytes);
        ping(false, [1, 2, 3, 4, 5, 6, 7, 8], &mut bytes);
        window_update(0, 77, &mut bytes);
        rst(3, 8, &mut bytes);
        goaway(5, 2, b"dbg", &mut bytes);
        data(1, b"hello", true, Some(3), &mut bytes);
        let mut enc = super::super::hpack_ref::RefEncoder::new(4096);
        let mut block = vec![];
        enc.block(
            &[
                (b":method".to_vec(), b"GET".to_vec()),
                (b"x-a".to_vec(), b"bcdefgh".to_vec()),
            ],
            &mut block,
        );
        headers(1, &block, false, Some(2), Some((true, 0, 16)), 3, 2, &mut bytes);
        for chunk in [1usize, 2, 7, 1000] {
            let mut p = FrameParser::new(true);
            let mut out = vec![];
            for c in bytes.chunks(chunk) {
                p.feed(c, &mut out);
            }
            assert_eq!(p.raw.preface_ok, Some(true));
            assert_eq!(out.len(), 8, "{:?}", out);
            match &out[6].body {
                Body::Data { flow_len, data, pad } => {
                    assert_eq!(*flow_len, 9);
                    assert_eq!(data, b"hello");
                    assert_eq!(*pad, Some(3));
                }
                _ => panic!(),
            }
            match &out[7].body {
                Body::Headers { block, priority, .. } => {
                    assert_eq!(block.fields.len(), 2);
                    assert_eq!(block.fields[1].1, b"bcdefgh".to_vec());
                    assert!(block.n_continuations > 0);
                    assert_eq!(*priority, Some((true, 0, 16)));
                }
                _ => panic!(),
            }
        }
    }
}
