pub mod frame;
pub mod hpack_ref;
