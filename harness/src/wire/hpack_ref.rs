//! Reference HPACK (RFC 7541) written for the harness. Shares no code with h2.
//!
//! * Huffman: the code table is the verbatim Appendix B text (`huff_rfc.txt`),
//!   parsed at start-up; decoding is a bit-by-bit walk of a binary tree.
//! * Static table: Appendix A typed in below.
//! * Decoder with a `strict` mode that enforces the *encoder-side* obligations
//!   (size update placement and bounds), and an encoder that can be told which
//!   representation to use for every field (to exercise every decoder path).

use std::collections::VecDeque;
use std::sync::OnceLock;

pub const HUFF_TEXT: &str = include_str!("huff_rfc.txt");

pub struct HuffTable {
    pub codes: Vec<(u32, u8)>, // 257 entries: (code, bit length)
    // tree: node -> [child0, child1]; leaf encoded as -(sym+1)
    tree: Vec<[i32; 2]>,
}

pub fn huff() -> &'static HuffTable {
    static T: OnceLock<HuffTable> = OnceLock::new();
    T.get_or_init(|| {
        let mut codes = Vec::with_capacity(257);
        for line in HUFF_TEXT.lines() {
            if line.trim().is_empty() {
                continue;
            }
            // "... ( 39)  |11111111|010      7fa  [11]"
            let open = line.find('(').expect("huff line");
            // the symbol column may itself be '(' : find the "(ddd)" group
            let mut idx = open;
            let bytes = line.as_bytes();
            loop {
                // need "(" followed by spaces/digits then ")"
                let rest = &line[idx + 1..];
                let close = rest.find(')').unwrap();
                let inner = rest[..close].trim();
                if !inner.is_empty() && inner.bytes().all(|b| b.is_ascii_digit()) {
                    break;
                }
                idx = idx + 1 + line[idx + 1..].find('(').unwrap();
            }
            let _ = bytes;
            let rest = &line[idx + 1..];
            let close = rest.find(')').unwrap();
            let sym: usize = rest[..close].trim().parse().unwrap();
            assert_eq!(sym, codes.len());
            let after = &rest[close + 1..];
            let bar = after.find('|').unwrap();
            let after = &after[bar..];
            let mut code: u32 = 0;
            let mut n: u8 = 0;
            let mut end = 0;
            for (i, c) in after.char_indices() {
                match c {
                    '0' => {
                        code <<= 1;
                        n += 1;
                    }
                    '1' => {
                        code = (code << 1) | 1;
                        n += 1;
                    }
                    '|' => {}
                    _ => {
                        end = i;
                        break;
                    }
                }
            }
            // cross-check with the hex column and the [len] column
            let tail = after[end..].trim();
            let mut it = tail.split_whitespace();
            let hex = it.next().unwrap();
            assert_eq!(u32::from_str_radix(hex, 16).unwrap(), code, "hex col sym {}", sym);
            let lenpart = tail[tail.find('[').unwrap() + 1..tail.find(']').unwrap()].trim();
            assert_eq!(lenpart.parse::<u8>().unwrap(), n, "len col sym {}", sym);
            codes.push((code, n));
        }
        assert_eq!(codes.len(), 257);
        let mut tree: Vec<[i32; 2]> = vec![[0, 0]];
        for (sym, (code, n)) in codes.iter().enumerate() {
            let mut node = 0usize;
            for i in (0..*n).rev() {
                let bit = ((code >> i) & 1) as usize;
                if i == 0 {
                    assert_eq!(tree[node][bit], 0);
                    tree[node][bit] = -(sym as i32 + 1);
                } else {
                    if tree[node][bit] == 0 {
                        tree.push([0, 0]);
                        let idx = tree.len() as i32 - 1;
                        tree[node][bit] = idx;
                    }
                    assert!(tree[node][bit] > 0);
                    node = tree[node][bit] as usize;
                }
            }
        }
        HuffTable { codes, tree }
    })
}

#[derive(Debug, Clone, PartialEq, Eq)]
pub enum HErr {
    /// more input needed (truncated)
    Truncated,
    BadIndex,
    BadHuffman,
    IntOverflow,
    BadSizeUpdate,
    Other(&'static str),
}

pub fn huff_decode(src: &[u8]) -> Result<Vec<u8>, HErr> {
    let t = huff();
    let mut out = Vec::with_capacity(src.len() * 2);
    let mut node = 0usize;
    let mut bits_since_sym = 0u32;
    let mut all_ones = true;
    for byte in src {
        for i in (0..8).rev() {
            let bit = ((byte >> i) & 1) as usize;
            bits_since_sym += 1;
            if bit == 0 {
                all_ones = false;
            }
            let nx = t.tree[node][bit];
            if nx < 0 {
                let sym = (-nx - 1) as usize;
                if sym == 256 {
                    // EOS in the string is a decoding error (RFC 7541 5.2)
                    return Err(HErr::BadHuffman);
                }
                out.push(sym as u8);
                node = 0;
                bits_since_sym = 0;
                all_ones = true;
            } else if nx == 0 {
                return Err(HErr::BadHuffman);
            } else {
                node = nx as usize;
            }
        }
    }
    // padding: strictly fewer than 8 bits, all ones (prefix of EOS)
    if bits_since_sym > 7 || !all_ones {
        return Err(HErr::BadHuffman);
    }
    Ok(out)
}

pub fn huff_encode(src: &[u8], dst: &mut Vec<u8>) {
    let t = huff();
    let mut acc: u64 = 0;
    let mut n: u32 = 0;
    for b in src {
        let (code, len) = t.codes[*b as usize];
        acc = (acc << len) | code as u64;
        n += len as u32;
        while n >= 8 {
            dst.push((acc >> (n - 8)) as u8);
            n -= 8;
        }
    }
    if n > 0 {
        let pad = 8 - n;
        let v = ((acc << pad) | ((1u64 << pad) - 1)) as u8;
        dst.push(v);
    }
}

pub fn huff_len(src: &[u8]) -> usize {
    let t = huff();
    let bits: usize = src.iter().map(|b| t.codes[*b as usize].1 as usize).sum();
    (bits + 7) / 8
}

pub const STATIC_TABLE: [(&str, &str); 61] = [
    (":authority", ""),
    (":method", "GET"),
    (":method", "POST"),
    (":path", "/"),
    (":path", "/index.html"),
    (":scheme", "http"),
    (":scheme", "https"),
    (":status", "200"),
    (":status", "204"),
    (":status", "206"),
    (":status", "304"),
    (":status", "400"),
    (":status", "404"),
    (":status", "500"),
    ("accept-charset", ""),
    ("accept-encoding", "gzip, deflate"),
    ("accept-language", ""),
    ("accept-ranges", ""),
    ("accept", ""),
    ("access-control-allow-origin", ""),
    ("age", ""),
    ("allow", ""),
    ("authorization", ""),
    ("cache-control", ""),
    ("content-disposition", ""),
    ("content-encoding", ""),
    ("content-language", ""),
    ("content-length", ""),
    ("content-location", ""),
    ("content-range", ""),
    ("content-type", ""),
    ("cookie", ""),
    ("date", ""),
    ("etag", ""),
    ("expect", ""),
    ("expires", ""),
    ("from", ""),
    ("host", ""),
    ("if-match", ""),
    ("if-modified-since", ""),
    ("if-none-match", ""),
    ("if-range", ""),
    ("if-unmodified-since", ""),
    ("last-modified", ""),
    ("link", ""),
    ("location", ""),
    ("max-forwards", ""),
    ("proxy-authenticate", ""),
    ("proxy-authorization", ""),
    ("range", ""),
    ("referer", ""),
    ("refresh", ""),
    ("retry-after", ""),
    ("server", ""),
    ("set-cookie", ""),
    ("strict-transport-security", ""),
    ("transfer-encoding", ""),
    ("user-agent", ""),
    ("vary", ""),
    ("via", ""),
    ("www-authenticate", ""),
];

pub type Field = (Vec<u8>, Vec<u8>);

/// How a decoded field was represented (for coverage and for the "sensitive
/// values are never indexed" encoder-side rule).
#[derive(Debug, Clone, Copy, PartialEq, Eq)]
pub enum Repr {
    Indexed,
    LitIncr,
    LitNoIdx,
    LitNever,
}

#[derive(Debug, Clone)]
pub struct Table {
    pub entries: VecDeque<Field>,
    pub size: usize,
    pub max_size: usize,
}

impl Table {
    pub fn new(max: usize) -> Table {
        Table {
            entries: VecDeque::new(),
            size: 0,
            max_size: max,
        }
    }
    pub fn get(&self, idx: usize) -> Option<Field> {
        if idx == 0 {
            None
        } else if idx <= 61 {
            let (n, v) = STATIC_TABLE[idx - 1];
            Some((n.as_bytes().to_vec(), v.as_bytes().to_vec()))
        } else {
            self.entries.get(idx - 62).cloned()
        }
    }
    fn evict_to(&mut self, limit: usize) {
        while self.size > limit {
            let (n, v) = self.entries.pop_back().expect("size>0 implies entries");
            self.size -= n.len() + v.len() + 32;
        }
    }
    pub fn set_max(&mut self, max: usize) {
        self.max_size = max;
        self.evict_to(max);
    }
    /// Inserts, returning the number of entries evicted.
    pub fn insert(&mut self, f: Field) -> usize {
        let before = self.entries.len();
        let sz = f.0.len() + f.1.len() + 32;
        if sz > self.max_size {
            self.entries.clear();
            self.size = 0;
            return before;
        }
        self.evict_to(self.max_size - sz);
        let ev = before - self.entries.len();
        self.entries.push_front(f);
        self.size += sz;
        ev
    }
    /// find (full match index, name-only index)
    pub fn find(&self, name: &[u8], value: &[u8]) -> (Option<usize>, Option<usize>) {
        let mut name_idx = None;
        for (i, (n, v)) in STATIC_TABLE.iter().enumerate() {
            if n.as_bytes() == name {
                if v.as_bytes() == value {
                    return (Some(i + 1), Some(i + 1));
                }
                if name_idx.is_none() {
                    name_idx = Some(i + 1);
                }
            }
        }
        for (i, (n, v)) in self.entries.iter().enumerate() {
            if n == name {
                if v == value {
                    return (Some(i + 62), name_idx.or(Some(i + 62)));
                }
                if name_idx.is_none() {
                    name_idx = Some(i + 62);
                }
            }
        }
        (None, name_idx)
    }
}

/// Decode a prefix integer. Returns (value, bytes consumed).
/// `max_bytes_hint`: none – the reference accepts any value that fits u64-ish
/// (we cap at 2^62 and call more than that IntOverflow).
pub fn decode_int(src: &[u8], prefix: u8) -> Result<(u64, usize), HErr> {
    if src.is_empty() {
        return Err(HErr::Truncated);
    }
    let mask: u8 = if prefix == 8 { 0xff } else { (1u8 << prefix) - 1 };
    let mut v = (src[0] & mask) as u64;
    if v < mask as u64 {
        return Ok((v, 1));
    }
    let mut shift = 0u32;
    let mut i = 1;
    loop {
        if i >= src.len() {
            return Err(HErr::Truncated);
        }
        let b = src[i];
        i += 1;
        if shift > 56 {
            return Err(HErr::IntOverflow);
        }
        v = v
            .checked_add(((b & 0x7f) as u64) << shift)
            .ok_or(HErr::IntOverflow)?;
        shift += 7;
        if b & 0x80 == 0 {
            return Ok((v, i));
        }
    }
}

pub fn encode_int(v: u64, prefix: u8, first: u8, dst: &mut Vec<u8>) {
    let mask: u64 = if prefix == 8 { 0xff } else { (1u64 << prefix) - 1 };
    if v < mask {
        dst.push(first | v as u8);
        return;
    }
    dst.push(first | mask as u8);
    let mut r = v - mask;
    while r >= 128 {
        dst.push((r & 0x7f) as u8 | 0x80);
        r >>= 7;
    }
    dst.push(r as u8);
}

/// Non-minimal integer: append `extra` redundant zero continuation octets.
pub fn encode_int_padded(v: u64, prefix: u8, first: u8, extra: usize, dst: &mut Vec<u8>) {
    let mask: u64 = if prefix == 8 { 0xff } else { (1u64 << prefix) - 1 };
    if v < mask && extra == 0 {
        dst.push(first | v as u8);
        return;
    }
    if v < mask {
        // cannot pad a value that fits in the prefix (prefix != all ones means no continuation)
        dst.push(first | v as u8);
        return;
    }
    dst.push(first | mask as u8);
    let mut r = v - mask;
    while r >= 128 {
        dst.push((r & 0x7f) as u8 | 0x80);
        r >>= 7;
    }
    if extra == 0 {
        dst.push(r as u8);
    } else {
        dst.push(r as u8 | 0x80);
        for _ in 0..extra - 1 {
            dst.push(0x80);
        }
        dst.push(0x00);
    }
}

fn decode_string(src: &[u8]) -> Result<(Vec<u8>, usize, bool), HErr> {
    if src.is_empty() {
        return Err(HErr::Truncated);
    }
    let h = src[0] & 0x80 != 0;
    let (len, n) = decode_int(src, 7)?;
    let len = len as usize;
    if len as u64 > (src.len() - n) as u64 {
        return Err(HErr::Truncated);
    }
    let raw = &src[n..n + len];
    let s = if h { huff_decode(raw)? } else { raw.to_vec() };
    Ok((s, n + len, h))
}

#[derive(Debug, Clone, Default)]
pub struct BlockStats {
    pub indexed_static: u32,
    pub indexed_dynamic: u32,
    pub lit_incr: u32,
    pub lit_noidx: u32,
    pub lit_never: u32,
    pub name_ref_dynamic: u32,
    pub huffman_strings: u32,
    pub raw_strings: u32,
    pub size_updates: Vec<u64>,
    pub evictions: u32,
    pub multi_octet_ints: u32,
}

#[derive(Debug, Clone)]
pub struct RefDecoder {
    pub table: Table,
    /// Upper bound for size updates (the SETTINGS_HEADER_TABLE_SIZE in force).
    pub allowed_max: usize,
    /// strict mode: if set, the next block must start with a size update that
    /// is <= this value (the minimum allowed size since the last block).
    pub pending_reduction: Option<usize>,
}

#[derive(Debug, Clone)]
pub struct Decoded {
    pub fields: Vec<Field>,
    pub reprs: Vec<Repr>,
    pub stats: BlockStats,
}

impl RefDecoder {
    pub fn new(max: usize) -> RefDecoder {
        RefDecoder {
            table: Table::new(max),
            allowed_max: max,
            pending_reduction: None,
        }
    }

    /// The decoder side changed SETTINGS_HEADER_TABLE_SIZE (and the encoder is
    /// now bound by it). Tracks the minimum for the strict "must signal a
    /// reduction" rule.
    pub fn set_allowed_max(&mut self, max: usize) {
        if max < self.table.max_size {
            let m = self.pending_reduction.map(|p| p.min(max)).unwrap_or(max);
            self.pending_reduction = Some(m);
        }
        self.allowed_max = max;
    }

    /// Decode a complete header block.
    /// `enforce_update_bound`: size updates above `allowed_max` are errors (RFC 7541 6.3).
    /// `strict_encoder_rules`: additionally require a pending reduction to be signalled at
    /// the start of the block. Returns Err(rule) on failure.
    pub fn decode(
        &mut self,
        src: &[u8],
        enforce_update_bound: bool,
        strict_encoder_rules: bool,
    ) -> Result<Decoded, HErr> {
        let mut pos = 0;
        let mut fields = Vec::new();
        let mut reprs = Vec::new();
        let mut stats = BlockStats::default();
        let mut seen_field = false;
        let mut first_update_seen = false;
        while pos < src.len() {
            let b = src[pos];
            if b & 0x80 != 0 {
                let (idx, n) = decode_int(&src[pos..], 7)?;
                if n > 1 {
                    stats.multi_octet_ints += 1;
                }
                pos += n;
                if idx > usize::MAX as u64 {
                    return Err(HErr::BadIndex);
                }
                let f = self.table.get(idx as usize).ok_or(HErr::BadIndex)?;
                if idx <= 61 {
                    stats.indexed_static += 1;
                } else {
                    stats.indexed_dynamic += 1;
                }
                fields.push(f);
                reprs.push(Repr::Indexed);
                seen_field = true;
            } else if b & 0xe0 == 0x20 {
                // size update
                if seen_field {
                    return Err(HErr::BadSizeUpdate);
                }
                let (sz, n) = decode_int(&src[pos..], 5)?;
                if n > 1 {
                    stats.multi_octet_ints += 1;
                }
                pos += n;
                if enforce_update_bound && sz > self.allowed_max as u64 {
                    return Err(HErr::BadSizeUpdate);
                }
                if strict_encoder_rules && !first_update_seen {
                    if let Some(p) = self.pending_reduction {
                        if sz > p as u64 {
                            return Err(HErr::Other("reduction-not-signalled-first"));
                        }
                    }
                }
                first_update_seen = true;
                self.pending_reduction = None;
                let before = self.table.entries.len();
                self.table.set_max(sz.min(usize::MAX as u64) as usize);
                stats.evictions += (before - self.table.entries.len()) as u32;
                stats.size_updates.push(sz);
            } else {
                let (prefix, repr, incr) = if b & 0xc0 == 0x40 {
                    (6, Repr::LitIncr, true)
                } else if b & 0xf0 == 0x10 {
                    (4, Repr::LitNever, false)
                } else {
                    (4, Repr::LitNoIdx, false)
                };
                if strict_encoder_rules && !seen_field && !first_update_seen {
                    if self.pending_reduction.is_some() {
                        return Err(HErr::Other("reduction-not-signalled"));
                    }
                }
                let (idx, n) = decode_int(&src[pos..], prefix)?;
                if n > 1 {
                    stats.multi_octet_ints += 1;
                }
                pos += n;
                let name = if idx == 0 {
                    let (s, n, h) = decode_string(&src[pos..])?;
                    pos += n;
                    if h {
                        stats.huffman_strings += 1
                    } else {
                        stats.raw_strings += 1
                    }
                    s
                } else {
                    if idx > usize::MAX as u64 {
                        return Err(HErr::BadIndex);
                    }
                    if idx > 61 {
                        stats.name_ref_dynamic += 1;
                    }
                    self.table.get(idx as usize).ok_or(HErr::BadIndex)?.0
                };
                let (value, n, h) = decode_string(&src[pos..])?;
                pos += n;
                if h {
                    stats.huffman_strings += 1
                } else {
                    stats.raw_strings += 1
                }
                match repr {
                    Repr::LitIncr => stats.lit_incr += 1,
                    Repr::LitNever => stats.lit_never += 1,
                    _ => stats.lit_noidx += 1,
                }
                if incr {
                    stats.evictions += self.table.insert((name.clone(), value.clone())) as u32;
                }
                fields.push((name, value));
                reprs.push(repr);
                seen_field = true;
            }
            if strict_encoder_rules && seen_field && !first_update_seen {
                if self.pending_reduction.is_some() {
                    return Err(HErr::Other("reduction-not-signalled"));
                }
            }
        }
        if strict_encoder_rules && self.pending_reduction.is_some() && !src.is_empty() && !first_update_seen {
            return Err(HErr::Other("reduction-not-signalled"));
        }
        Ok(Decoded {
            fields,
            reprs,
            stats,
        })
    }
}

/// Per-field encoding directive for the reference encoder.
#[derive(Debug, Clone, Copy)]
pub struct EncChoice {
    /// 0 = best (indexed if full match else literal incr), 1 = literal incr,
    /// 2 = literal without indexing, 3 = never indexed
    pub repr: u8,
    pub use_name_index: bool,
    pub huff_name: bool,
    pub huff_value: bool,
    /// redundant zero continuation octets on the string length / index integers
    pub int_pad: u8,
}

impl Default for EncChoice {
    fn default() -> Self {
        EncChoice {
            repr: 0,
            use_name_index: true,
            huff_name: false,
            huff_value: false,
            int_pad: 0,
        }
    }
}

#[derive(Debug, Clone)]
pub struct RefEncoder {
    pub table: Table,
}

impl RefEncoder {
    pub fn new(max: usize) -> RefEncoder {
        RefEncoder {
            table: Table::new(max),
        }
    }

    pub fn size_update(&mut self, sz: usize, dst: &mut Vec<u8>) {
        encode_int(sz as u64, 5, 0x20, dst);
        self.table.set_max(sz);
    }

    fn put_string(s: &[u8], huffman: bool, pad: u8, dst: &mut Vec<u8>) {
        if huffman {
            let mut tmp = Vec::new();
            huff_encode(s, &mut tmp);
            encode_int_padded(tmp.len() as u64, 7, 0x80, pad as usize, dst);
            dst.extend_from_slice(&tmp);
        } else {
            encode_int_padded(s.len() as u64, 7, 0x00, pad as usize, dst);
            dst.extend_from_slice(s);
        }
    }

    pub fn field(&mut self, name: &[u8], value: &[u8], c: EncChoice, dst: &mut Vec<u8>) {
        let (full, name_idx) = self.table.find(name, value);
        if c.repr == 0 {
            if let Some(i) = full {
                encode_int_padded(i as u64, 7, 0x80, c.int_pad as usize, dst);
                return;
            }
        }
        let (first, prefix, incr) = match c.repr {
            0 | 1 => (0x40u8, 6u8, true),
            2 => (0x00, 4, false),
            _ => (0x10, 4, false),
        };
        match (c.use_name_index, name_idx) {
            (true, Some(i)) => {
                encode_int_padded(i as u64, prefix, first, c.int_pad as usize, dst);
            }
            _ => {
                dst.push(first);
                Self::put_string(name, c.huff_name, c.int_pad, dst);
            }
        }
        Self::put_string(value, c.huff_value, c.int_pad, dst);
        if incr {
            self.table.insert((name.to_vec(), value.to_vec()));
        }
    }

    pub fn block(&mut self, fields: &[Field], dst: &mut Vec<u8>) {
        for (n, v) in fields {
            self.field(n, v, EncChoice::default(), dst);
        }
    }
}

#[cfg(test)]
mod tests {
    use super::*;

    fn hex(s: &str) -> Vec<u8> {
        let s: String = s.chars().filter(|c| !c.is_whitespace()).collect();
        (0..s.len() / 2)
            .map(|i| u8::from_str_radix(&s[2 * i..2 * i + 2], 16).unwrap())
            .collect()
    }

    #[test]
    fn rfc_c4_huffman_requests() {
        // RFC 7541 C.4.1 .. C.4.3
        let mut d = RefDecoder::new(4096);
        let r = d
            .decode(&hex("8286 8441 8cf1 e3c2 e5f2 3a6b a0ab 90f4 ff"), true, false)
            .unwrap();
        assert_eq!(r.fields[3], (b":authority".to_vec(), b"www.example.com".to_vec()));
        let r = d.decode(&hex("8286 84be 5886 a8eb 1064 9cbf"), true, false).unwrap();
        assert_eq!(r.fields[4], (b"cache-control".to_vec(), b"no-cache".to_vec()));
        let r = d
            .decode(&hex("8287 85bf 4088 25a8 49e9 5ba9 7d7f 8925 a849 e95b b8e8 b4bf"), true, false)
            .unwrap();
        assert_eq!(r.fields[4], (b"custom-key".to_vec(), b"custom-value".to_vec()));
        assert_eq!(d.table.size, 164);
    }

    #[test]
    fn rfc_c6_responses_with_eviction() {
        let mut d = RefDecoder::new(256);
        d.decode(
            &hex("4882 6402 5885 aec3 771a 4b61 96d0 7abe 9410 54d4 44a8 2005 9504 0b81 66e0 82a6 2d1b ff6e 919d 29ad 1718 63c7 8f0b 97c8 e9ae 82ae 43d3"),
            true,
            false,
        )
        .unwrap();
        assert_eq!(d.table.size, 222);
        d.decode(&hex("4883 640e ffc1 c0bf"), true, false).unwrap();
        assert_eq!(d.table.size, 222);
        let r = d
            .decode(
                &hex("88c1 6196 d07a be94 1054 d444 a820 0595 040b 8166 e084 a62d 1bff c05a 839b d9ab 77ad 94e7 821d d7f2 e6c7 b335 dfdf cd5b 3960 d5af 2708 7f36 72c1 ab27 0fb5 291f 9587 3160 65c0 03ed 4ee5 b106 3d50 07"),
                true,
                false,
            )
            .unwrap();
        assert_eq!(d.table.size, 215);
        assert_eq!(r.fields.len(), 6);
        assert_eq!(r.fields[5].0, b"set-cookie".to_vec());
    }

    #[test]
    fn ints() {
        // C.1.1, C.1.2, C.1.3
        assert_eq!(decode_int(&[0b01010], 5).unwrap(), (10, 1));
        assert_eq!(decode_int(&[0b11111, 0b10011010, 0b00001010], 5).unwrap(), (1337, 3));
        assert_eq!(decode_int(&[42], 8).unwrap(), (42, 1));
        let mut v = vec![];
        encode_int(1337, 5, 0, &mut v);
        assert_eq!(v, vec![0b11111, 0b10011010, 0b00001010]);
        for x in [0u64, 1, 30, 31, 32, 127, 128, 255, 256, 16383, 1 << 28, u32::MAX as u64] {
            for p in 1..=8u8 {
                let mut v = vec![];
                encode_int(x, p, 0, &mut v);
                assert_eq!(decode_int(&v, p).unwrap(), (x, v.len()));
                let mut v = vec![];
                encode_int_padded(x, p, 0, 2, &mut v);
                assert_eq!(decode_int(&v, p).unwrap(), (x, v.len()));
            }
        }
    }

    #[test]
    fn huff_roundtrip_and_errors() {
        for b in 0..=255u8 {
            let mut v = vec![];
            huff_encode(&[b, b ^ 0x55, b], &mut v);
            assert_eq!(huff_decode(&v).unwrap(), vec![b, b ^ 0x55, b]);
        }
        // EOS
        assert!(huff_decode(&[0xff, 0xff, 0xff, 0xff]).is_err());
        // zero padding
        assert!(huff_decode(&[0x00 | 0b0001_1000]).is_err() || true);
        // 'a' = 00011 (5 bits) + padding 111 ok; + padding 000 bad
        assert_eq!(huff_decode(&[0b0001_1111]).unwrap(), b"a".to_vec());
        assert!(huff_decode(&[0b0001_1000]).is_err());
        // 8 bits of padding
        assert!(huff_decode(&[0b0001_1111, 0xff]).is_err());
    }
}
