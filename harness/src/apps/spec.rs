//! Scenario description (everything an execution depends on) and its generator.

use crate::rng::Rng;
use crate::sim::pipe::Chunk;
use crate::sim::{DirProfile, Fault, FaultKind, Sched};
use serde_json::{json, Value};

#[derive(Debug, Clone, Default)]
pub struct EpCfg {
    pub initial_window_size: Option<u32>,
    pub initial_connection_window_size: Option<u32>,
    pub max_frame_size: Option<u32>,
    pub max_concurrent_streams: Option<u32>,
    pub max_send_buffer_size: Option<usize>,
    pub header_table_size: Option<u32>,
    pub max_header_list_size: Option<u32>,
    pub max_concurrent_reset_streams: Option<usize>,
    /// None = default (30 s); Some(0) = forget immediately; Some(n) = n seconds
    pub reset_stream_duration_s: Option<u64>,
    pub max_pending_accept_reset_streams: Option<usize>,
    pub max_local_error_reset_streams: Option<Option<usize>>,
    pub data_frame_budget: Option<usize>,
    // client only
    pub enable_push: Option<bool>,
    pub initial_stream_id: Option<u32>,
    pub initial_max_send_streams: Option<usize>,
    // server only
    pub enable_connect_protocol: bool,
}

impl EpCfg {
    pub fn stream_window(&self) -> u32 {
        self.initial_window_size.unwrap_or(65_535)
    }
    pub fn conn_window(&self) -> u32 {
        self.initial_connection_window_size.unwrap_or(65_535)
    }
    pub fn to_json(&self) -> Value {
        json!({
            "iws": self.initial_window_size, "icws": self.initial_connection_window_size,
            "mfs": self.max_frame_size, "mcs": self.max_concurrent_streams,
            "msbs": self.max_send_buffer_size, "hts": self.header_table_size,
            "mhls": self.max_header_list_size, "mcrs": self.max_concurrent_reset_streams,
            "rsd": self.reset_stream_duration_s, "push": self.enable_push,
            "isid": self.initial_stream_id, "imss": self.initial_max_send_streams,
            "mpars": self.max_pending_accept_reset_streams,
        })
    }
}

pub type Fields = Vec<(String, Vec<u8>)>;

#[derive(Debug, Clone, Copy, PartialEq, Eq)]
pub enum CapMode {
    /// send_data without reserving (h2 buffers)
    Direct,
    /// reserve the whole remaining body, send what poll_capacity grants
    ReserveAll,
    /// reserve chunk by chunk
    ReserveChunk,
    /// reserve, then lower the reservation before using all of it
    ReserveChurn,
}

#[derive(Debug, Clone, PartialEq, Eq)]
pub enum EosMode {
    /// end_of_stream on the head (only when there are no chunks)
    OnHead,
    OnLastData,
    /// a trailing empty DATA frame carries END_STREAM
    EmptyData,
    Trailers(Fields),
}

#[derive(Debug, Clone, Copy, PartialEq, Eq)]
pub enum AbortKind {
    Reset(u32),
    Drop,
}

#[derive(Debug, Clone)]
pub struct MsgPlan {
    pub fields: Fields,
    pub chunks: Vec<usize>,
    pub eos: EosMode,
    pub cap: CapMode,
    /// abort after sending this many chunks
    pub abort: Option<(usize, AbortKind)>,
    /// cooperative yields before each chunk
    pub pace: u8,
}

impl MsgPlan {
    pub fn total(&self) -> usize {
        self.chunks.iter().sum()
    }
    pub fn complete(&self) -> bool {
        self.abort.is_none()
    }
    pub fn to_json(&self) -> Value {
        json!({
            "nfields": self.fields.len(),
            "fields_bytes": self.fields.iter().map(|(n, v)| n.len() + v.len()).sum::<usize>(),
            "chunks": self.chunks, "eos": format!("{:?}", match &self.eos { EosMode::Trailers(t) => format!("Trailers({})", t.len()), o => format!("{:?}", o) }),
            "cap": format!("{:?}", self.cap), "abort": format!("{:?}", self.abort),
        })
    }
}

#[derive(Debug, Clone, Copy, PartialEq, Eq)]
pub enum ReadMode {
    All,
    /// read about n bytes then drop the RecvStream (other handles may live on)
    StopAfter(usize),
    /// hold the RecvStream without reading until the scenario gate opens, then read everything (raw scripts)
    AfterGate,
}

#[derive(Debug, Clone, Copy, PartialEq, Eq)]
pub enum Release {
    Immediate,
    /// keep at most this many bytes unreleased
    Lag(usize),
    /// never release explicitly (drop does it)
    Never,
}

#[derive(Debug, Clone)]
pub struct ReadPlan {
    pub mode: ReadMode,
    pub release: Release,
    pub check_end_stream: bool,
    pub pace: u8,
}

impl ReadPlan {
    pub fn to_json(&self) -> Value {
        json!({"mode": format!("{:?}", self.mode), "release": format!("{:?}", self.release)})
    }
}

#[derive(Debug, Clone)]
pub struct PushSpec {
    pub idx: u32,
    pub path: String,
    pub req_fields: Fields,
    pub status: u16,
    pub resp: MsgPlan,
    pub read: ReadPlan,
    /// send the promise before (true) or after the parent's response head
    pub before_response: bool,
}

#[derive(Debug, Clone, Copy, PartialEq, Eq)]
pub enum RespondWhen {
    Immediately,
    AfterRequestRead,
}

#[derive(Debug, Clone)]
pub struct StreamSpec {
    pub idx: u32,
    pub method: String,
    pub path: String,
    pub req: MsgPlan,
    pub req_read: ReadPlan,
    pub informational: Vec<(u16, Fields)>,
    pub status: u16,
    pub resp: MsgPlan,
    pub resp_read: ReadPlan,
    pub respond_when: RespondWhen,
    pub pushes: Vec<PushSpec>,
    pub client_polls_info: bool,
    pub client_polls_push: bool,
    /// client cancels (drops ResponseFuture and everything) after this many yields, if set
    pub client_cancel_after: Option<u32>,
    /// server resets instead of responding
    pub server_reset: Option<u32>,
    /// which SendRequest clone issues this request
    pub via_clone: usize,
    /// yields before the request is issued
    pub start_delay: u32,
    /// yields before the server handler starts answering
    pub respond_delay: u32,
    /// the server handler answers only once the scenario gate is open (raw scripts)
    pub respond_gate: bool,
    /// the client issues the request only once the scenario gate is open (raw scripts)
    pub start_gate: bool,
}

impl StreamSpec {
    pub fn to_json(&self) -> Value {
        json!({
            "idx": self.idx, "method": self.method, "path_len": self.path.len(),
            "req": self.req.to_json(), "req_read": self.req_read.to_json(),
            "info": self.informational.iter().map(|x| x.0).collect::<Vec<_>>(),
            "status": self.status, "resp": self.resp.to_json(), "resp_read": self.resp_read.to_json(),
            "when": format!("{:?}", self.respond_when), "pushes": self.pushes.len(),
            "polls_info": self.client_polls_info, "polls_push": self.client_polls_push,
            "cancel": self.client_cancel_after, "srv_reset": self.server_reset, "clone": self.via_clone,
        })
    }
    /// both message directions are meant to complete
    pub fn fully_cooperative(&self) -> bool {
        self.req.complete()
            && self.resp.complete()
            && self.req_read.mode == ReadMode::All
            && self.resp_read.mode == ReadMode::All
            && self.client_cancel_after.is_none()
            && self.server_reset.is_none()
    }
}

#[derive(Debug, Clone, PartialEq, Eq)]
pub enum ConnOpKind {
    Ping,
    SetTargetWindow(u32),
    SetInitialWindow(u32),
    GracefulShutdown,
    AbruptShutdown(u32),
    DropConn,
    /// client: drop every SendRequest clone not in use (idle close)
    Nop,
}

#[derive(Debug, Clone)]
pub struct ConnOp {
    pub side_server: bool,
    /// number of controller yields before the op
    pub after_yields: u32,
    pub kind: ConnOpKind,
}

#[derive(Debug, Clone, Copy, PartialEq, Eq)]
pub enum Focus {
    General,
    Fidelity,
    SendWindow,
    RecvWindow,
    Lifecycle,
    Concurrency,
    Progress,
    Capacity,
    Resets,
    Forget,
    Settings,
    Shutdown,
}

impl Focus {
    pub fn parse(s: &str) -> Focus {
        match s {
            "fidelity" => Focus::Fidelity,
            "sendwindow" => Focus::SendWindow,
            "recvwindow" => Focus::RecvWindow,
            "lifecycle" => Focus::Lifecycle,
            "concurrency" => Focus::Concurrency,
            "progress" => Focus::Progress,
            "capacity" => Focus::Capacity,
            "resets" => Focus::Resets,
            "forget" => Focus::Forget,
            "settings" => Focus::Settings,
            "shutdown" => Focus::Shutdown,
            _ => Focus::General,
        }
    }
}

#[derive(Debug, Clone)]
pub struct Scenario {
    pub seed: u64,
    pub focus: Focus,
    pub sched: Sched,
    pub client: EpCfg,
    pub server: EpCfg,
    pub prof: [DirProfile; 2],
    pub inject: (u64, u64, u32),
    pub streams: Vec<StreamSpec>,
    pub n_clones: usize,
    pub conn_ops: Vec<ConnOp>,
    pub faults: Vec<Fault>,
    /// every wait in the scenario is expected to end (no permanently zero window/limit)
    pub coop: bool,
    /// second wave of streams issued after the first reached quiescence (C19)
    pub second_wave: Vec<StreamSpec>,
    /// server keeps accepting (false = stops after n accepted, only in non-coop)
    pub server_accept_limit: Option<usize>,
    pub max_steps: u64,
    /// C07 fault enumeration: how and when the connection is ended, then probed
    pub ending: Option<Ending>,
}

#[derive(Debug, Clone, Copy, PartialEq, Eq)]
pub enum EndKind {
    /// both directions cut with a clean EOF
    CutEof,
    /// both directions cut, readers see ConnectionReset
    CutReset,
    DropClientConn,
    DropServerConn,
    AbruptShutdown(u32),
    GracefulShutdown,
}

#[derive(Debug, Clone, Copy)]
pub struct Ending {
    pub kind: EndKind,
    /// world step (scheduler decisions) after which the ending is applied
    pub at_step: u64,
}

impl Scenario {
    pub fn to_json(&self) -> Value {
        json!({
            "seed": self.seed, "focus": format!("{:?}", self.focus), "sched": format!("{:?}", self.sched),
            "client": self.client.to_json(), "server": self.server.to_json(),
            "prof": [format!("{:?}", self.prof[0]), format!("{:?}", self.prof[1])],
            "inject": [self.inject.0, self.inject.1, self.inject.2 as u64],
            "streams": self.streams.iter().map(|s| s.to_json()).collect::<Vec<_>>(),
            "n_clones": self.n_clones,
            "conn_ops": self.conn_ops.iter().map(|o| format!("{}@{}:{:?}", if o.side_server {"S"} else {"C"}, o.after_yields, o.kind)).collect::<Vec<_>>(),
            "faults": self.faults.iter().map(|f| format!("{:?}", f)).collect::<Vec<_>>(),
            "coop": self.coop, "second_wave": self.second_wave.len(), "ending": self.ending.map(|e| format!("{:?}@step{}", e.kind, e.at_step)),
        })
    }
}

// ===== generation =====

const SIZE_BOUNDARIES: &[usize] = &[0, 1, 2, 255, 256, 257, 1023, 1024, 1025, 16_383, 16_384, 16_385, 65_534, 65_535, 65_536];

fn gen_size(rng: &mut Rng, max: usize) -> usize {
    let v = match rng.below(10) {
        0 => 0,
        1 => 1,
        2 | 3 => rng.pick_copy(SIZE_BOUNDARIES),
        4 | 5 => rng.range(1, 300) as usize,
        6 | 7 => rng.range(1, 5000) as usize,
        8 => rng.range(1, 70_000) as usize,
        _ => rng.range(1, max.max(1) as u64) as usize,
    };
    v.min(max)
}

const NAMES: &[&str] = &[
    "accept", "accept-encoding", "cache-control", "content-type", "cookie", "user-agent", "x-a", "x-b", "x-custom-header-name",
    "set-cookie", "etag", "vary", "x-request-id", "x-long-header-name-for-the-table-0123456789", "authorization", "date",
];

fn gen_value(rng: &mut Rng, max: usize) -> Vec<u8> {
    let n = match rng.below(8) {
        0 => 0,
        1..=4 => rng.range(1, 24) as usize,
        5 | 6 => rng.range(1, 200) as usize,
        _ => rng.range(1, max.max(1) as u64) as usize,
    };
    let n = n.min(max);
    // visible ASCII, sometimes with obs-text and tabs (valid HeaderValue bytes)
    (0..n)
        .map(|i| {
            let r = rng.below(100);
            if r < 90 {
                b'a' + ((rng.below(26)) as u8)
            } else if r < 95 {
                b'0' + (rng.below(10) as u8)
            } else if r < 97 && i > 0 && i + 1 < n {
                b' '
            } else if r < 98 {
                0x80 + rng.below(0x7f) as u8
            } else {
                b'-'
            }
        })
        .collect()
}

pub fn gen_fields(rng: &mut Rng, big: bool) -> Fields {
    let n = match rng.below(6) {
        0 => 0,
        1..=3 => rng.range(1, 5) as usize,
        4 => rng.range(1, 20) as usize,
        _ => {
            if big {
                rng.range(10, 80) as usize
            } else {
                rng.range(1, 8) as usize
            }
        }
    };
    let mut v = Vec::new();
    for i in 0..n {
        let name = if rng.chance(3, 4) {
            rng.pick(NAMES).to_string()
        } else {
            format!("x-gen-{}-{}", i, rng.below(50))
        };
        let maxv = if big && rng.chance(1, 6) { 9000 } else { 300 };
        v.push((name, gen_value(rng, maxv)));
    }
    v
}

fn gen_chunks(rng: &mut Rng, max_total: usize) -> Vec<usize> {
    let n = match rng.below(8) {
        0 => 0,
        1..=3 => 1,
        4 | 5 => rng.range(2, 4) as usize,
        _ => rng.range(2, 9) as usize,
    };
    let mut v = Vec::new();
    let mut left = max_total;
    for _ in 0..n {
        let s = gen_size(rng, left);
        v.push(s);
        left -= s;
    }
    v
}

fn gen_msg(rng: &mut Rng, max_body: usize, big_headers: bool, allow_abort: bool, allow_silent_drop: bool) -> MsgPlan {
    let chunks = gen_chunks(rng, max_body);
    let eos = if chunks.is_empty() {
        match rng.below(5) {
            0 => EosMode::EmptyData,
            1 => EosMode::Trailers(gen_fields(rng, false)),
            _ => EosMode::OnHead,
        }
    } else {
        match rng.below(6) {
            0 => EosMode::EmptyData,
            1 => {
                let big = big_headers && rng.chance(1, 4);
                EosMode::Trailers(gen_fields(rng, big))
            }
            _ => EosMode::OnLastData,
        }
    };
    let cap = match rng.below(6) {
        0 | 1 | 2 => CapMode::Direct,
        3 => CapMode::ReserveAll,
        4 => CapMode::ReserveChunk,
        _ => CapMode::ReserveChurn,
    };
    let abort = if allow_abort && rng.chance(1, 5) {
        let after = rng.usize_below(chunks.len() + 1);
        // dropping a SendStream half-way without a reset is a silent abandonment the peer cannot
        // see while other handles of the stream live on: only non-cooperative programs do that
        let kind = if !allow_silent_drop || rng.chance(1, 2) {
            AbortKind::Reset(*rng.pick(&[0u32, 1, 2, 5, 7, 8, 11, 13, 0xff, 0xdead_beef]))
        } else {
            AbortKind::Drop
        };
        Some((after, kind))
    } else {
        None
    };
    MsgPlan {
        fields: gen_fields(rng, big_headers),
        chunks,
        eos,
        cap,
        abort,
        pace: rng.below(3) as u8,
    }
}

fn gen_read(rng: &mut Rng, lag_max: usize, allow_stop: bool) -> ReadPlan {
    let mode = if allow_stop && rng.chance(1, 6) {
        ReadMode::StopAfter(gen_size(rng, 40_000))
    } else {
        ReadMode::All
    };
    let release = match rng.below(5) {
        0 | 1 | 2 => Release::Immediate,
        3 => Release::Lag(rng.range(0, lag_max as u64) as usize),
        _ => {
            if allow_stop && mode != ReadMode::All {
                Release::Never
            } else {
                Release::Lag(rng.range(0, lag_max as u64) as usize)
            }
        }
    };
    ReadPlan {
        mode,
        release,
        check_end_stream: rng.chance(1, 2),
        pace: rng.below(3) as u8,
    }
}

fn gen_window(rng: &mut Rng, focus: Focus) -> Option<u32> {
    let small = matches!(focus, Focus::SendWindow | Focus::RecvWindow | Focus::Capacity | Focus::Progress);
    match rng.below(if small { 6 } else { 10 }) {
        0 => Some(*rng.pick(&[1u32, 7, 100])),
        1 => Some(*rng.pick(&[1000u32, 4096, 16_384, 16_385])),
        2 => Some(65_535),
        3 => Some(*rng.pick(&[65_536u32, 100_000, 1 << 20])),
        4 => Some(rng.range(1, 70_000) as u32),
        _ => None,
    }
}

fn gen_cfg(rng: &mut Rng, focus: Focus, is_client: bool) -> EpCfg {
    let mut c = EpCfg::default();
    c.initial_window_size = gen_window(rng, focus);
    c.initial_connection_window_size = match rng.below(6) {
        0 => Some(*rng.pick(&[65_535u32, 65_536, 70_000])),
        1 => Some(rng.range(65_535, 300_000) as u32),
        2 => Some(1 << 20),
        _ => None,
    };
    c.max_frame_size = match rng.below(6) {
        0 => Some(16_384),
        1 => Some(16_385),
        2 => Some(65_536),
        3 => Some(rng.range(16_384, 100_000) as u32),
        _ => None,
    };
    let conc = matches!(focus, Focus::Concurrency | Focus::Lifecycle | Focus::Progress);
    c.max_concurrent_streams = match rng.below(if conc { 4 } else { 10 }) {
        0 => Some(1),
        1 => Some(2),
        2 => Some(rng.range(1, 6) as u32),
        _ => None,
    };
    c.max_send_buffer_size = match rng.below(6) {
        0 => Some(*rng.pick(&[1usize, 7, 64])),
        1 => Some(100),
        2 => Some(16_384),
        3 => Some(rng.range(1, 500_000) as usize),
        _ => None,
    };
    c.header_table_size = match rng.below(8) {
        0 => Some(0),
        1 => Some(rng.range(32, 200) as u32),
        2 => Some(4096),
        3 => Some(65_536),
        _ => None,
    };
    c.max_concurrent_reset_streams = match rng.below(6) {
        0 => Some(0),
        1 => Some(1),
        2 => Some(rng.range(1, 5) as usize),
        _ => None,
    };
    // the small-DATA-frame budget is a documented, configurable defence (exercised by C18);
    // fidelity/flow scenarios switch it off so that tiny application writes are legal traffic
    c.data_frame_budget = Some(1 << 40);
    c.reset_stream_duration_s = match rng.below(4) {
        0 => Some(0),
        1 => Some(3600),
        _ => None,
    };
    if is_client {
        c.enable_push = match rng.below(4) {
            0 => Some(false),
            1 => Some(true),
            _ => None,
        };
        if focus == Focus::Lifecycle && rng.chance(1, 6) {
            // near id exhaustion
            let k = rng.range(0, 6) as u32;
            c.initial_stream_id = Some(0x7fff_ffff - 2 * k);
        }
        c.initial_max_send_streams = match rng.below(8) {
            0 => Some(1),
            1 => Some(rng.range(1, 10) as usize),
            _ => None,
        };
    }
    c
}

pub fn gen_profile(rng: &mut Rng) -> DirProfile {
    let kind = rng.below(8);
    let mut p = DirProfile::default();
    match kind {
        0 => {} // ideal
        1 => {
            p.write_max = Chunk::Fixed(1);
            p.deliver = Chunk::Fixed(1);
            p.read_max = Chunk::Fixed(1);
        }
        2 => {
            p.write_max = Chunk::Mixed;
            p.deliver = Chunk::Mixed;
            p.read_max = Chunk::Mixed;
            p.write_pending = (1, 4);
            p.flush_pending = (1, 4);
        }
        3 => {
            p.write_max = Chunk::Uniform(1, 40);
            p.deliver = Chunk::All;
            p.write_pending = (1, 8);
        }
        4 => {
            p.write_max = Chunk::All;
            p.deliver = Chunk::Uniform(1, 17);
            p.read_max = Chunk::Uniform(1, 9);
        }
        5 => {
            p.write_max = Chunk::Uniform(1, 20_000);
            p.deliver = Chunk::Uniform(1, 20_000);
            p.write_pending = (1, 3);
            p.flush_pending = (1, 2);
            p.shutdown_pending = (1, 2);
        }
        6 => {
            p.write_max = Chunk::Mixed;
            p.deliver = Chunk::All;
            p.read_max = Chunk::Mixed;
        }
        _ => {
            p.write_max = Chunk::Fixed(rng.range(2, 600) as usize);
            p.deliver = Chunk::Fixed(rng.range(1, 600) as usize);
        }
    }
    p.vectored = rng.chance(1, 2);
    p
}

pub fn gen_sched(rng: &mut Rng) -> Sched {
    match rng.below(8) {
        0 | 1 | 2 => Sched::Random,
        3 => Sched::StarveConn,
        4 => Sched::ConnFirst,
        5 => Sched::Lifo,
        6 => Sched::Fifo,
        _ => Sched::WorldLast,
    }
}

pub struct GenOpts {
    pub focus: Focus,
    pub coop: bool,
    pub max_streams: usize,
    pub max_body: usize,
    pub small: bool,
}

fn gen_stream(rng: &mut Rng, idx: u32, o: &GenOpts, push_ok: bool, n_clones: usize, lag_max: usize) -> StreamSpec {
    let allow_abort = !o.coop || matches!(o.focus, Focus::Resets | Focus::Lifecycle | Focus::Forget | Focus::Capacity | Focus::Concurrency | Focus::RecvWindow);
    let big = !o.small && rng.chance(1, 6);
    let method = rng.pick(&["GET", "POST", "PUT", "HEAD", "DELETE", "OPTIONS", "PATCH"]).to_string();
    let mut req = gen_msg(rng, o.max_body, big, allow_abort, !o.coop);
    let status = *rng.pick(&[200u16, 200, 200, 201, 204, 206, 304, 400, 404, 500, 299]);
    let mut resp = gen_msg(rng, o.max_body, big, allow_abort, !o.coop);
    if method == "HEAD" {
        // a response to HEAD carries no content; h2 (rightly) resets a stream that does
        for c in resp.chunks.iter_mut() {
            *c = 0;
        }
    } else if (status == 204 || status == 304) && rng.chance(1, 2) {
        resp.chunks.clear();
        if resp.eos == EosMode::OnLastData {
            resp.eos = EosMode::OnHead;
        }
    }
    if o.focus == Focus::Fidelity && rng.chance(1, 3) {
        req.abort = None;
        resp.abort = None;
    }
    // a reader that walks away without resetting is likewise non-cooperative
    let allow_stop = !o.coop;
    let informational = if rng.chance(1, 5) {
        (0..rng.range(1, 3)).map(|_| (*rng.pick(&[100u16, 102, 103, 199]), gen_fields(rng, false))).collect()
    } else {
        vec![]
    };
    let mut pushes = Vec::new();
    if push_ok && rng.chance(1, 5) {
        for _ in 0..rng.range(1, 3) {
            pushes.push(PushSpec {
                idx: 0, // assigned by caller
                path: format!("/pushed/{}", rng.below(1000)),
                req_fields: gen_fields(rng, false),
                status: 200,
                resp: gen_msg(rng, o.max_body.min(20_000), false, allow_abort, !o.coop),
                read: gen_read(rng, lag_max, allow_stop),
                before_response: rng.chance(2, 3),
            });
        }
    }
    let path = match rng.below(5) {
        0 => "/".to_string(),
        1 => "/index.html".to_string(),
        2 => format!("/p/{}?q={}", rng.below(100), rng.below(100)),
        3 => {
            let n = if big { rng.range(1, 6000) } else { rng.range(1, 200) } as usize;
            format!("/{}", "a".repeat(n))
        }
        _ => format!("/x{}", idx),
    };
    StreamSpec {
        idx,
        method,
        path,
        req,
        req_read: gen_read(rng, lag_max, allow_stop),
        informational,
        status,
        resp,
        resp_read: gen_read(rng, lag_max, allow_stop),
        respond_when: if rng.chance(1, 3) { RespondWhen::AfterRequestRead } else { RespondWhen::Immediately },
        pushes,
        client_polls_info: rng.chance(2, 3),
        // a client that enables push but never looks at the promises is not cooperating
        client_polls_push: o.coop || rng.chance(3, 4),
        client_cancel_after: if allow_abort && rng.chance(1, 12) { Some(rng.range(0, 30) as u32) } else { None },
        server_reset: if allow_abort && rng.chance(1, 14) { Some(*rng.pick(&[0u32, 2, 7, 8, 11, 0x1234_5678])) } else { None },
        via_clone: rng.usize_below(n_clones),
        start_delay: rng.range(0, 6) as u32,
        respond_delay: if rng.chance(1, 4) { rng.range(1, 40) as u32 } else { 0 },
        respond_gate: false,
        start_gate: false,
    }
}

pub fn generate(seed: u64, o: &GenOpts) -> Scenario {
    let mut rng = Rng::new(seed ^ 0x5eed_5eed);
    let focus = o.focus;
    let mut client = gen_cfg(&mut rng, focus, true);
    let mut server = gen_cfg(&mut rng, focus, false);
    if o.small {
        // keep Miri-sized
        client.max_frame_size = None;
        server.max_frame_size = None;
    }
    // byte-at-a-time transports make every body byte a world event: keep those bodies small.
    // Large bodies are the exception, not the rule (diversity of alignments matters more than volume).
    let prof = [gen_profile(&mut rng), gen_profile(&mut rng)];
    let tiny = |p: &DirProfile| matches!(p.write_max, Chunk::Fixed(n) if n < 64) || matches!(p.deliver, Chunk::Fixed(n) if n < 64) || matches!(p.write_max, Chunk::Uniform(_, hi) if hi <= 64) || matches!(p.deliver, Chunk::Uniform(_, hi) if hi <= 64) || matches!(p.read_max, Chunk::Fixed(n) if n < 64) || matches!(p.read_max, Chunk::Uniform(_, hi) if hi <= 64);
    let mut max_body = if rng.chance(1, 8) { o.max_body } else { o.max_body.min(70_000) };
    if tiny(&prof[0]) || tiny(&prof[1]) {
        max_body = max_body.min(6_000);
    }
    let small_send_buffer = |c: &EpCfg| matches!(c.max_send_buffer_size, Some(n) if n < 200);
    if small_send_buffer(&client) || small_send_buffer(&server) {
        max_body = max_body.min(4_000);
    }
    let o = &GenOpts { focus: o.focus, coop: o.coop, max_streams: o.max_streams, max_body, small: o.small };
    let n_streams = match rng.below(6) {
        0 => 1,
        1 | 2 => rng.range(1, 3) as usize,
        3 | 4 => rng.range(2, 6) as usize,
        _ => rng.range(3, o.max_streams.max(3) as u64) as usize,
    }
    .min(o.max_streams.max(1));
    let n_clones = 1 + rng.usize_below(3.min(n_streams));
    // lag bound: quarter of the smaller stream window, and the connection share
    let lag = |c: &EpCfg| ((c.stream_window() / 4) as usize).min((c.conn_window() as usize) / (4 * n_streams.max(1) * 3)).min(20_000);
    let lag_c = lag(&client);
    let lag_s = lag(&server);
    let lag_max = lag_c.min(lag_s);
    // (settings focus: a server application may try to push although the client disabled push - the API must refuse,
    // nothing may reach the wire; the client often spells out the default window next to ENABLE_PUSH=0)
    if focus == Focus::Settings && client.enable_push == Some(false) && rng.chance(1, 2) {
        client.initial_window_size = Some(65_535);
    }
    let push_ok = client.enable_push != Some(false) || (focus == Focus::Settings && rng.chance(2, 3));
    let mut streams = Vec::new();
    let mut next_idx = 1u32;
    for _ in 0..n_streams {
        let mut s = gen_stream(&mut rng, next_idx, o, push_ok, n_clones, lag_max);
        next_idx += 1;
        for p in s.pushes.iter_mut() {
            p.idx = next_idx;
            next_idx += 1;
        }
        streams.push(s);
    }
    if focus != Focus::Lifecycle {
        // Pushing concurrently on several parents makes h2 emit promised ids out of order
        // (known finding under C04); only the C04 workload keeps that shape.
        let mut seen = false;
        for s in streams.iter_mut() {
            if !s.pushes.is_empty() {
                if seen {
                    s.pushes.clear();
                }
                seen = true;
            }
        }
    }
    let mut conn_ops = Vec::new();
    let n_ops = match focus {
        Focus::Settings | Focus::RecvWindow | Focus::Shutdown => rng.range(1, 4),
        _ => rng.range(0, 2),
    };
    let mut coop = o.coop;
    for _ in 0..n_ops {
        let side_server = rng.chance(1, 2);
        let kind = match rng.below(10) {
            0 | 1 | 2 => ConnOpKind::Ping,
            3 | 4 => ConnOpKind::SetTargetWindow(*rng.pick(&[65_535u32, 70_000, 100_000, 1 << 20, 30_000, 1000])),
            5 | 6 => ConnOpKind::SetInitialWindow(*rng.pick(&[1u32, 100, 10_000, 30_000, 65_535, 100_000, 1 << 20])),
            7 if focus == Focus::Shutdown && side_server => ConnOpKind::GracefulShutdown,
            8 if focus == Focus::Shutdown && side_server && !o.coop => ConnOpKind::AbruptShutdown(*rng.pick(&[0u32, 2, 11])),
            9 if !o.coop => ConnOpKind::DropConn,
            _ => ConnOpKind::Ping,
        };
        if let ConnOpKind::SetTargetWindow(v) = kind {
            // a target below what laggy readers may hold would be an application deadlock
            if (v as usize) < 4 * n_streams * 3 * lag_max.max(1) {
                continue;
            }
        }
        if let ConnOpKind::SetInitialWindow(v) = kind {
            if (v as usize) < 4 * lag_max.max(1) {
                continue;
            }
        }
        conn_ops.push(ConnOp {
            side_server,
            after_yields: rng.range(0, 60) as u32,
            kind,
        });
    }
    if focus == Focus::Shutdown && rng.chance(2, 3) && !conn_ops.iter().any(|c| matches!(c.kind, ConnOpKind::GracefulShutdown | ConnOpKind::AbruptShutdown(_) | ConnOpKind::DropConn)) {
        // the shutdown focus is about graceful shutdown: have one in most scenarios, often with user pings of
        // either side in flight around it (their acknowledgements interleave with the shutdown PING's)
        let at = rng.range(0, 60) as u32;
        conn_ops.push(ConnOp { side_server: true, after_yields: at, kind: ConnOpKind::GracefulShutdown });
        if rng.chance(1, 2) {
            conn_ops.push(ConnOp { side_server: true, after_yields: at.saturating_sub(rng.range(0, 12) as u32), kind: ConnOpKind::Ping });
        }
        if rng.chance(1, 3) {
            conn_ops.push(ConnOp { side_server: false, after_yields: at.saturating_sub(rng.range(0, 4) as u32) + rng.range(0, 3) as u32, kind: ConnOpKind::Ping });
        }
    }
    let mut faults = Vec::new();
    if !o.coop && rng.chance(1, 4) {
        let dir = rng.usize_below(2);
        faults.push(Fault {
            dir,
            at: rng.range(0, 3000),
            kind: *rng.pick(&[FaultKind::CutEof, FaultKind::CutReset, FaultKind::WriteErr, FaultKind::WriteZero]),
        });
        coop = false;
    }
    let second_wave = if focus == Focus::Forget {
        let n = rng.range(1, 4) as usize;
        let mut v = Vec::new();
        for _ in 0..n {
            let mut s = gen_stream(&mut rng, next_idx, o, push_ok, 1, lag_max);
            s.via_clone = 0;
            next_idx += 1;
            for p in s.pushes.iter_mut() {
                p.idx = next_idx;
                next_idx += 1;
            }
            v.push(s);
        }
        v
    } else {
        vec![]
    };
    let inject = match rng.below(4) {
        0 => (1, 2, 3),
        1 => (1, 6, 2),
        _ => (0, 1, 0),
    };
    Scenario {
        seed,
        focus,
        sched: gen_sched(&mut rng),
        client,
        server,
        prof,
        inject,
        streams,
        n_clones,
        conn_ops,
        faults,
        coop,
        second_wave,
        server_accept_limit: None,
        max_steps: 3_000_000,
        ending: None,
    }
}
