//! Application programs: small async actors driving h2's public API, logging
//! a `call` record before and a `ret` record after every operation.

use super::spec::*;
use crate::sim::{self, PipeEnd, TaskKind};
use crate::trace::{Api, ErrInfo, EvK, Msg, Op, Phase, Res, Side};
use bytes::Bytes;

/// body buffer type of every connection the actors drive: non-contiguous pieces
pub type BodyBuf = crate::apps::seg::Seg;
use h2::{client, server, Reason, RecvStream, SendStream};
use http::{HeaderMap, HeaderName, HeaderValue, Request, Response};
use std::cell::RefCell;
use std::collections::VecDeque;
use std::future::Future;
use std::pin::Pin;
use std::rc::Rc;
use std::task::{Context, Poll, Waker};
use std::time::Duration;

// ===== helpers =====

pub fn poll_fn<T, F: FnMut(&mut Context<'_>) -> Poll<T>>(f: F) -> PollFn<F> {
    PollFn(f)
}
pub struct PollFn<F>(F);
impl<F> Unpin for PollFn<F> {}
impl<T, F: FnMut(&mut Context<'_>) -> Poll<T>> Future for PollFn<F> {
    type Output = T;
    fn poll(mut self: Pin<&mut Self>, cx: &mut Context<'_>) -> Poll<T> {
        (self.0)(cx)
    }
}

/// Drop an h2 object under a panic catcher: the test-only drop assertions of h2's `unstable` feature
/// must not make the actor lose the records that follow the drop.
pub fn drop_caught<T>(x: T, what: &str) {
    if let Err(p) = std::panic::catch_unwind(std::panic::AssertUnwindSafe(move || drop(x))) {
        let msg = if let Some(s) = p.downcast_ref::<&str>() { s.to_string() } else if let Some(s) = p.downcast_ref::<String>() { s.clone() } else { "?".into() };
        sim::with(|w| w.stats.panics.push(format!("drop of {}: {}", what, msg)));
    }
}

/// Give the scheduler a chance to run something else (n scheduling slots).
pub async fn yield_n(n: u32) {
    for _ in 0..n {
        let mut first = true;
        poll_fn(|cx| {
            if first {
                first = false;
                cx.waker().wake_by_ref();
                Poll::Pending
            } else {
                Poll::Ready(())
            }
        })
        .await;
    }
}

/// Position-coded body bytes: byte i of body `id` (id = 2*stream idx + direction bit).
pub fn pattern_byte(id: u32, i: u64) -> u8 {
    let x = crate::rng::splitmix((id as u64) << 40 | (i >> 3), 0x706174);
    (x >> ((i & 7) * 8)) as u8
}

pub fn pattern(id: u32, off: u64, len: usize) -> Bytes {
    let mut v = Vec::with_capacity(len);
    for i in 0..len as u64 {
        v.push(pattern_byte(id, off + i));
    }
    Bytes::from(v)
}

pub fn check_pattern(id: u32, off: u64, data: &[u8]) -> bool {
    data.iter().enumerate().all(|(i, b)| *b == pattern_byte(id, off + i as u64))
}

#[derive(Clone)]
pub struct Ctx {
    pub conn: u8,
    pub side: Side,
}

#[allow(clippy::too_many_arguments)]
fn api(ctx: &Ctx, op: Op, phase: Phase, op_id: u32, tag: u32, sid: u32, a: u64, b: u64, flag: bool, res: Res, msg: Option<Msg>) {
    sim::log(
        ctx.conn,
        EvK::Api(Box::new(Api {
            side: ctx.side,
            tag,
            sid,
            op,
            phase,
            op_id,
            a,
            b,
            flag,
            res,
            msg: msg.map(Box::new),
        })),
    );
}

fn call(ctx: &Ctx, op: Op, tag: u32, sid: u32, a: u64, b: u64, flag: bool, msg: Option<Msg>) -> u32 {
    let id = sim::with(|w| w.trace.next_op_id());
    api(ctx, op, Phase::Call, id, tag, sid, a, b, flag, Res::None, msg);
    id
}

fn ret(ctx: &Ctx, op: Op, op_id: u32, tag: u32, sid: u32, a: u64, b: u64, flag: bool, res: Res, msg: Option<Msg>) {
    api(ctx, op, Phase::Ret, op_id, tag, sid, a, b, flag, res, msg);
}

fn res_of<T>(r: &Result<T, h2::Error>) -> Res {
    match r {
        Ok(_) => Res::Ok,
        Err(e) => Res::Err(Box::new(ErrInfo::from(e))),
    }
}

fn note(s: String) {
    sim::log(0, EvK::Note(s));
}

pub fn header_map(fields: &Fields) -> HeaderMap {
    let mut m = HeaderMap::new();
    for (n, v) in fields {
        m.append(HeaderName::from_bytes(n.as_bytes()).unwrap(), HeaderValue::from_bytes(v).unwrap());
    }
    m
}

pub fn fields_of(m: &HeaderMap) -> Vec<(String, Vec<u8>)> {
    m.iter().map(|(n, v)| (n.as_str().to_string(), v.as_bytes().to_vec())).collect()
}

fn msg_of_request<T>(r: &Request<T>) -> Msg {
    Msg {
        method: Some(r.method().as_str().to_string()),
        uri: Some(r.uri().to_string()),
        status: None,
        protocol: r.extensions().get::<h2::ext::Protocol>().map(|p| p.as_str().to_string()),
        version: Some(format!("{:?}", r.version())),
        fields: fields_of(r.headers()),
    }
}

fn msg_of_response<T>(r: &Response<T>) -> Msg {
    Msg {
        method: None,
        uri: None,
        status: Some(r.status().as_u16()),
        protocol: None,
        version: Some(format!("{:?}", r.version())),
        fields: fields_of(r.headers()),
    }
}

fn vp_id(m: &HeaderMap) -> u32 {
    m.get("x-vp-id").and_then(|v| v.to_str().ok()).and_then(|s| s.parse().ok()).unwrap_or(0)
}

// ===== connection command channel =====

#[derive(Debug, Clone)]
pub enum ConnCmd {
    Op(ConnOpKind),
}

#[derive(Default)]
pub struct ConnCtl {
    pub cmds: VecDeque<ConnCmd>,
    pub waker: Option<Waker>,
    pub done: bool,
    /// the connection's ping handle, reachable by the engine after the connection task has ended (C07 probes)
    pub pp: Option<Rc<RefCell<Option<h2::PingPong>>>>,
    /// keep the finished connection object alive instead of dropping it (an accept loop that joins its handlers
    /// before returning does exactly that); the engine drops it at the very end
    pub keep_conn: bool,
    pub kept: Vec<Box<dyn std::any::Any>>,
}

pub type ConnCtlRef = Rc<RefCell<ConnCtl>>;

pub fn send_cmd(ctl: &ConnCtlRef, c: ConnCmd) {
    let w = {
        let mut b = ctl.borrow_mut();
        b.cmds.push_back(c);
        b.waker.take()
    };
    if let Some(w) = w {
        w.wake();
    }
}

// ===== body sender / reader shared by both roles =====

/// Sends the body described by `plan` on `stream`. `body_id` identifies the pattern.
pub async fn send_body(ctx: Ctx, idx: u32, body_id: u32, mut stream: SendStream<BodyBuf>, plan: MsgPlan, head_eos: bool) {
    let sid = stream.stream_id().as_u32();
    if head_eos {
        let id = call(&ctx, Op::DropSend, idx, sid, 0, 0, false, None);
        drop(stream);
        ret(&ctx, Op::DropSend, id, idx, sid, 0, 0, false, Res::Ok, None);
        return;
    }
    let mut off: u64 = 0;
    let n_chunks = plan.chunks.len();
    let total: usize = plan.total();
    let mut failed = false;
    'outer: for (ci, chunk) in plan.chunks.iter().enumerate() {
        if let Some((after, kind)) = plan.abort {
            if after == ci {
                abort_send(&ctx, idx, sid, stream, kind);
                return;
            }
        }
        yield_n(plan.pace as u32).await;
        let last = ci + 1 == n_chunks;
        let eos_here = last && plan.eos == EosMode::OnLastData;
        let mut remaining = *chunk;
        match plan.cap {
            CapMode::Direct => {
                let data = pattern(body_id, off, remaining);
                let id = call(&ctx, Op::SendData, idx, sid, off, remaining as u64, eos_here, None);
                let r = stream.send_data(BodyBuf::from(data), eos_here);
                ret(&ctx, Op::SendData, id, idx, sid, off, remaining as u64, eos_here, res_of(&r), None);
                if r.is_err() {
                    failed = true;
                    break 'outer;
                }
                off += remaining as u64;
            }
            mode => {
                if remaining == 0 {
                    let id = call(&ctx, Op::SendData, idx, sid, off, 0, eos_here, None);
                    let r = stream.send_data(BodyBuf::new(), eos_here);
                    ret(&ctx, Op::SendData, id, idx, sid, off, 0, eos_here, res_of(&r), None);
                    if r.is_err() {
                        failed = true;
                        break 'outer;
                    }
                }
                while remaining > 0 {
                    let want = match mode {
                        CapMode::ReserveAll => total - off as usize,
                        _ => remaining,
                    };
                    if mode == CapMode::ReserveChurn {
                        // ask for more, then lower: the difference must go back to the connection
                        let id = call(&ctx, Op::Reserve, idx, sid, (want * 2 + 10) as u64, 0, false, None);
                        stream.reserve_capacity(want * 2 + 10);
                        ret(&ctx, Op::Reserve, id, idx, sid, (want * 2 + 10) as u64, 0, false, Res::Ok, None);
                    }
                    let id = call(&ctx, Op::Reserve, idx, sid, want as u64, 0, false, None);
                    stream.reserve_capacity(want);
                    ret(&ctx, Op::Reserve, id, idx, sid, want as u64, 0, false, Res::Ok, None);
                    // Documented usage: poll_capacity notifies of *increases*; capacity already
                    // assigned is read with capacity().
                    let have = stream.capacity();
                    let got = if have > 0 {
                        api(&ctx, Op::Capacity, Phase::Ret, 0, idx, sid, have as u64, 0, true, Res::Val(have as u64), None);
                        have
                    } else {
                        let id = call(&ctx, Op::PollCapacity, idx, sid, want as u64, 0, false, None);
                        let r = poll_fn(|cx| stream.poll_capacity(cx)).await;
                        match r {
                            Some(Ok(n)) => {
                                ret(&ctx, Op::PollCapacity, id, idx, sid, want as u64, 0, false, Res::Val(n as u64), None);
                                n
                            }
                            Some(Err(e)) => {
                                ret(&ctx, Op::PollCapacity, id, idx, sid, want as u64, 0, false, Res::Err(Box::new(ErrInfo::from(&e))), None);
                                failed = true;
                                break 'outer;
                            }
                            None => {
                                ret(&ctx, Op::PollCapacity, id, idx, sid, want as u64, 0, false, Res::End, None);
                                failed = true;
                                break 'outer;
                            }
                        }
                    };
                    // truthfulness sample: capacity() right after the notification
                    let cap_now = stream.capacity();
                    api(&ctx, Op::Capacity, Phase::Ret, 0, idx, sid, cap_now as u64, got as u64, false, Res::Val(cap_now as u64), None);
                    let n = got.min(remaining).min(cap_now.max(1));
                    let eos_piece = eos_here && n == remaining;
                    let data = pattern(body_id, off, n);
                    let id = call(&ctx, Op::SendData, idx, sid, off, n as u64, eos_piece, None);
                    let r = stream.send_data(BodyBuf::from(data), eos_piece);
                    ret(&ctx, Op::SendData, id, idx, sid, off, n as u64, eos_piece, res_of(&r), None);
                    if r.is_err() {
                        failed = true;
                        break 'outer;
                    }
                    off += n as u64;
                    remaining -= n;
                }
            }
        }
    }
    if !failed {
        if let Some((after, kind)) = plan.abort {
            if after >= n_chunks {
                abort_send(&ctx, idx, sid, stream, kind);
                return;
            }
        }
        match &plan.eos {
            EosMode::OnLastData if n_chunks > 0 => {}
            EosMode::OnLastData | EosMode::EmptyData | EosMode::OnHead => {
                let id = call(&ctx, Op::SendData, idx, sid, off, 0, true, None);
                let r = stream.send_data(BodyBuf::new(), true);
                ret(&ctx, Op::SendData, id, idx, sid, off, 0, true, res_of(&r), None);
            }
            EosMode::Trailers(t) => {
                let m = Msg { fields: t.clone(), ..Default::default() };
                let id = call(&ctx, Op::SendTrailers, idx, sid, 0, 0, true, Some(m));
                let r = stream.send_trailers(header_map(t));
                ret(&ctx, Op::SendTrailers, id, idx, sid, 0, 0, true, res_of(&r), None);
            }
        }
    }
    // A reset *after* the message was finished (abort index == number of chunks): legal API use; if the tail of
    // the message is still queued (flow control, back-pressure) the reset has to go out and discard it (C17).
    if let Some((after, AbortKind::Reset(code))) = plan.abort {
        if after == n_chunks && !failed {
            yield_n(plan.pace as u32).await;
            let id = call(&ctx, Op::SendReset, idx, sid, code as u64, 2, false, None);
            stream.send_reset(Reason::from(code));
            ret(&ctx, Op::SendReset, id, idx, sid, code as u64, 2, false, Res::Ok, None);
        }
    }
    // wait until the peer resets or everything is flushed? No: dropping the
    // handle after END_STREAM is the documented way to finish.
    let id = call(&ctx, Op::DropSend, idx, sid, 0, 0, false, None);
    drop(stream);
    ret(&ctx, Op::DropSend, id, idx, sid, 0, 0, false, Res::Ok, None);
}

fn abort_send(ctx: &Ctx, idx: u32, sid: u32, mut stream: SendStream<BodyBuf>, kind: AbortKind) {
    match kind {
        AbortKind::Reset(code) => {
            let id = call(ctx, Op::SendReset, idx, sid, code as u64, 0, false, None);
            stream.send_reset(Reason::from(code));
            ret(ctx, Op::SendReset, id, idx, sid, code as u64, 0, false, Res::Ok, None);
        }
        AbortKind::Drop => {}
    }
    let id = call(ctx, Op::DropSend, idx, sid, 1, 0, false, None);
    drop(stream);
    ret(ctx, Op::DropSend, id, idx, sid, 1, 0, false, Res::Ok, None);
}

/// Reads a body, checking the position code. Returns true if a clean end was observed.
pub async fn read_body(ctx: Ctx, idx: u32, body_id: u32, mut body: RecvStream, plan: ReadPlan) -> bool {
    let sid = body.stream_id().as_u32();
    let mut off: u64 = 0;
    let mut unreleased: VecDeque<usize> = VecDeque::new();
    let mut unreleased_total: usize = 0;
    let mut clean = false;
    if plan.mode == ReadMode::AfterGate {
        poll_fn(sim::poll_gate).await;
    }
    loop {
        if let ReadMode::StopAfter(n) = plan.mode {
            if off as usize >= n {
                break;
            }
        }
        if plan.check_end_stream {
            let e = body.is_end_stream();
            api(&ctx, Op::IsEndStream, Phase::Ret, 0, idx, sid, off, 0, e, Res::Ok, None);
        }
        yield_n(plan.pace as u32).await;
        let id = call(&ctx, Op::PollData, idx, sid, off, 0, false, None);
        let r = poll_fn(|cx| body.poll_data(cx)).await;
        match r {
            Some(Ok(data)) => {
                let ok = check_pattern(body_id, off, &data);
                ret(&ctx, Op::PollData, id, idx, sid, off, data.len() as u64, ok, Res::Ok, None);
                off += data.len() as u64;
                unreleased.push_back(data.len());
                unreleased_total += data.len();
                let limit = match plan.release {
                    Release::Immediate => 0,
                    Release::Lag(n) => n,
                    Release::Never => usize::MAX,
                };
                while unreleased_total > limit {
                    let n = unreleased.pop_front().unwrap();
                    unreleased_total -= n;
                    if n == 0 {
                        continue;
                    }
                    let id = call(&ctx, Op::Release, idx, sid, n as u64, 0, false, None);
                    let r = body.flow_control().release_capacity(n);
                    ret(&ctx, Op::Release, id, idx, sid, n as u64, 0, false, res_of(&r), None);
                }
            }
            Some(Err(e)) => {
                ret(&ctx, Op::PollData, id, idx, sid, off, 0, false, Res::Err(Box::new(ErrInfo::from(&e))), None);
                break;
            }
            None => {
                ret(&ctx, Op::PollData, id, idx, sid, off, 0, false, Res::End, None);
                // trailers
                let id = call(&ctx, Op::PollTrailers, idx, sid, 0, 0, false, None);
                let r = poll_fn(|cx| body.poll_trailers(cx)).await;
                match r {
                    Ok(Some(t)) => {
                        let m = Msg { fields: fields_of(&t), ..Default::default() };
                        ret(&ctx, Op::PollTrailers, id, idx, sid, 0, 0, true, Res::Ok, Some(m));
                        clean = true;
                    }
                    Ok(None) => {
                        ret(&ctx, Op::PollTrailers, id, idx, sid, 0, 0, false, Res::End, None);
                        clean = true;
                    }
                    Err(e) => {
                        ret(&ctx, Op::PollTrailers, id, idx, sid, 0, 0, false, Res::Err(Box::new(ErrInfo::from(&e))), None);
                    }
                }
                if clean {
                    let e = body.is_end_stream();
                    api(&ctx, Op::CleanEnd, Phase::Ret, 0, idx, sid, off, 0, e, Res::Ok, None);
                }
                break;
            }
        }
    }
    // release the rest (a polite application), unless the plan says never
    if plan.release != Release::Never {
        while let Some(n) = unreleased.pop_front() {
            if n == 0 {
                continue;
            }
            let id = call(&ctx, Op::Release, idx, sid, n as u64, 0, false, None);
            let r = body.flow_control().release_capacity(n);
            ret(&ctx, Op::Release, id, idx, sid, n as u64, 0, false, res_of(&r), None);
        }
    }
    let id = call(&ctx, Op::DropRecv, idx, sid, off, 0, clean, None);
    drop(body);
    ret(&ctx, Op::DropRecv, id, idx, sid, off, 0, clean, Res::Ok, None);
    clean
}

// ===== client =====

fn build_request(spec: &StreamSpec, idx: u32, method: &str, path: &str, fields: &Fields) -> Request<()> {
    let mut b = Request::builder().method(method).uri(format!("https://vp.test{}", path));
    b = b.header("x-vp-id", idx.to_string());
    let _ = spec;
    let mut req = b.body(()).unwrap();
    for (n, v) in fields {
        req.headers_mut().append(HeaderName::from_bytes(n.as_bytes()).unwrap(), HeaderValue::from_bytes(v).unwrap());
    }
    req
}

pub fn client_builder(c: &EpCfg) -> client::Builder {
    let mut b = client::Builder::new();
    if let Some(v) = c.initial_window_size {
        b.initial_window_size(v);
    }
    if let Some(v) = c.initial_connection_window_size {
        b.initial_connection_window_size(v);
    }
    if let Some(v) = c.max_frame_size {
        b.max_frame_size(v);
    }
    if let Some(v) = c.max_concurrent_streams {
        b.max_concurrent_streams(v);
    }
    if let Some(v) = c.max_send_buffer_size {
        b.max_send_buffer_size(v);
    }
    if let Some(v) = c.header_table_size {
        b.header_table_size(v);
    }
    if let Some(v) = c.max_header_list_size {
        b.max_header_list_size(v);
    }
    if let Some(v) = c.max_concurrent_reset_streams {
        b.max_concurrent_reset_streams(v);
    }
    if let Some(v) = c.reset_stream_duration_s {
        b.reset_stream_duration(Duration::from_secs(v));
    }
    if let Some(v) = c.max_pending_accept_reset_streams {
        b.max_pending_accept_reset_streams(v);
    }
    if let Some(v) = c.max_local_error_reset_streams {
        b.max_local_error_reset_streams(v);
    }
    if let Some(v) = c.data_frame_budget {
        b.data_frame_budget(v);
    }
    if let Some(v) = c.enable_push {
        b.enable_push(v);
    }
    if let Some(v) = c.initial_stream_id {
        b.initial_stream_id(v);
    }
    if let Some(v) = c.initial_max_send_streams {
        b.initial_max_send_streams(v);
    }
    b
}

pub fn server_builder(c: &EpCfg) -> server::Builder {
    let mut b = server::Builder::new();
    if let Some(v) = c.initial_window_size {
        b.initial_window_size(v);
    }
    if let Some(v) = c.initial_connection_window_size {
        b.initial_connection_window_size(v);
    }
    if let Some(v) = c.max_frame_size {
        b.max_frame_size(v);
    }
    if let Some(v) = c.max_concurrent_streams {
        b.max_concurrent_streams(v);
    }
    if let Some(v) = c.max_send_buffer_size {
        b.max_send_buffer_size(v);
    }
    if let Some(v) = c.header_table_size {
        b.header_table_size(v);
    }
    if let Some(v) = c.max_header_list_size {
        b.max_header_list_size(v);
    }
    if let Some(v) = c.max_concurrent_reset_streams {
        b.max_concurrent_reset_streams(v);
    }
    if let Some(v) = c.reset_stream_duration_s {
        b.reset_stream_duration(Duration::from_secs(v));
    }
    if let Some(v) = c.max_pending_accept_reset_streams {
        b.max_pending_accept_reset_streams(v);
    }
    if let Some(v) = c.max_local_error_reset_streams {
        b.max_local_error_reset_streams(v);
    }
    if let Some(v) = c.data_frame_budget {
        b.data_frame_budget(v);
    }
    if c.enable_connect_protocol {
        b.enable_connect_protocol();
    }
    b
}

/// Shared state between the client's main task and its helpers.
pub struct ClientShared {
    pub ctl: ConnCtlRef,
    /// completed request actors (for wave sequencing)
    pub done_streams: u32,
    pub pp: Option<h2::PingPong>,
}

pub async fn handle_ping(ctx: Ctx, pp: Rc<RefCell<Option<h2::PingPong>>>) {
    let mut p = match pp.borrow_mut().take() {
        Some(p) => p,
        None => return,
    };
    // a keep-alive pinger: one to three pings back to back, the next one sent the moment the previous
    // acknowledgement has been taken (nothing else polls the connection in between)
    let mut left = 0;
    loop {
        let id = call(&ctx, Op::Ping, 0, 0, 0, 0, false, None);
        if left == 0 {
            left = 1 + id % 3;
        }
        let r = p.send_ping(h2::Ping::opaque());
        if let Err(e) = &r {
            ret(&ctx, Op::Ping, id, 0, 0, 0, 0, false, Res::Err(Box::new(ErrInfo::from(e))), None);
            break;
        }
        let r = poll_fn(|cx| p.poll_pong(cx)).await;
        ret(&ctx, Op::Ping, id, 0, 0, 1, 0, false, res_of(&r), None);
        left -= 1;
        if left == 0 || r.is_err() {
            break;
        }
    }
    *pp.borrow_mut() = Some(p);
}

/// The task owning the client `Connection`.
pub async fn client_conn_task(ctx: Ctx, mut conn: client::Connection<PipeEnd, BodyBuf>, ctl: ConnCtlRef, hooks: crate::mon::snap::SnapHook) {
    let pp = Rc::new(RefCell::new(conn.ping_pong()));
    ctl.borrow_mut().pp = Some(pp.clone());
    let id = call(&ctx, Op::ConnDone, 0, 0, 0, 0, false, None);
    let mut dropped = false;
    let r = poll_fn(|cx| {
        // commands first
        loop {
            let cmd = ctl.borrow_mut().cmds.pop_front();
            match cmd {
                None => break,
                Some(ConnCmd::Op(k)) => match k {
                    ConnOpKind::Ping => {
                        sim::spawn("client-ping", TaskKind::App, handle_ping(ctx.clone(), pp.clone()));
                    }
                    ConnOpKind::SetTargetWindow(v) => {
                        api(&ctx, Op::SetTargetWindow, Phase::Ret, 0, 0, 0, v as u64, 0, false, Res::Ok, None);
                        conn.set_target_window_size(v);
                        hooks.set_target(v);
                    }
                    ConnOpKind::SetInitialWindow(v) => {
                        let r = conn.set_initial_window_size(v);
                        api(&ctx, Op::SetInitialWindow, Phase::Ret, 0, 0, 0, v as u64, 0, false, res_of(&r), None);
                    }
                    ConnOpKind::DropConn => {
                        dropped = true;
                        return Poll::Ready(Ok(()));
                    }
                    ConnOpKind::Nop => hooks.force_next(),
                    _ => {}
                },
            }
        }
        ctl.borrow_mut().waker = Some(cx.waker().clone());
        sim::log(ctx.conn, EvK::ConnPoll { side: ctx.side, begin: true });
        if hooks.want() { hooks.before(&conn.verif_snapshot()); }
        let r = Pin::new(&mut conn).poll(cx);
        sim::log(ctx.conn, EvK::ConnPoll { side: ctx.side, begin: false });
        if hooks.want() { hooks.after(&conn.verif_snapshot()); }
        r
    })
    .await;
    ctl.borrow_mut().done = true;
    if dropped {
        api(&ctx, Op::DropConn, Phase::Ret, 0, 0, 0, 0, 0, false, Res::Ok, None);
        drop_caught(conn, "connection");
        ret(&ctx, Op::ConnDone, id, 0, 0, 0, 0, true, Res::End, None);
    } else {
        ret(&ctx, Op::ConnDone, id, 0, 0, 0, 0, false, res_of(&r), None);
        if ctl.borrow().keep_conn {
            ctl.borrow_mut().kept.push(Box::new(conn));
        } else {
            drop_caught(conn, "connection");
        }
    }
}

async fn client_pushed_stream(ctx: Ctx, spec: Option<PushSpec>, idx: u32, fut: client::PushedResponseFuture) {
    let sid = fut.stream_id().as_u32();
    let id = call(&ctx, Op::PushedResponse, idx, sid, 0, 0, false, None);
    let r = fut.await;
    match r {
        Ok(resp) => {
            let m = msg_of_response(&resp);
            ret(&ctx, Op::PushedResponse, id, idx, sid, 0, 0, false, Res::Ok, Some(m));
            let plan = spec.map(|s| s.read).unwrap_or(ReadPlan { mode: ReadMode::All, release: Release::Immediate, check_end_stream: true, pace: 0 });
            read_body(ctx, idx, idx * 2 + 1, resp.into_body(), plan).await;
        }
        Err(e) => {
            ret(&ctx, Op::PushedResponse, id, idx, sid, 0, 0, false, Res::Err(Box::new(ErrInfo::from(&e))), None);
        }
    }
}

/// Lets the response task tell the promise listener that the application has abandoned the
/// stream (a client that stops reading the response also stops listening for promises).
#[derive(Default)]
pub struct StopFlag {
    pub stop: bool,
    pub waker: Option<Waker>,
}

fn raise_stop(f: &Rc<RefCell<StopFlag>>) {
    let w = {
        let mut b = f.borrow_mut();
        b.stop = true;
        b.waker.take()
    };
    if let Some(w) = w {
        w.wake();
    }
}

async fn client_push_listener(ctx: Ctx, parent: StreamSpec, mut pushes: client::PushPromises, stop: Rc<RefCell<StopFlag>>) {
    loop {
        let id = call(&ctx, Op::PushPromise, parent.idx, 0, 0, 0, false, None);
        let r = poll_fn(|cx| {
            {
                let mut b = stop.borrow_mut();
                if b.stop {
                    return Poll::Ready(None);
                }
                b.waker = Some(cx.waker().clone());
            }
            pushes.poll_push_promise(cx).map(Some)
        })
        .await;
        let r = match r {
            Some(r) => r,
            None => {
                // abandoned by the application: drop the handle
                ret(&ctx, Op::PushPromise, id, parent.idx, 0, 0, 1, false, Res::End, None);
                break;
            }
        };
        match r {
            Some(Ok(pp)) => {
                let (req, fut) = pp.into_parts();
                let pidx = vp_id(req.headers());
                let m = msg_of_request(&req);
                ret(&ctx, Op::PushPromise, id, pidx, fut.stream_id().as_u32(), parent.idx as u64, 0, false, Res::Ok, Some(m));
                let spec = parent.pushes.iter().find(|p| p.idx == pidx).cloned();
                sim::spawn(format!("client-pushed-{}", pidx), TaskKind::App, client_pushed_stream(ctx.clone(), spec, pidx, fut));
            }
            Some(Err(e)) => {
                ret(&ctx, Op::PushPromise, id, parent.idx, 0, 0, 0, false, Res::Err(Box::new(ErrInfo::from(&e))), None);
                break;
            }
            None => {
                ret(&ctx, Op::PushPromise, id, parent.idx, 0, 0, 0, false, Res::End, None);
                break;
            }
        }
    }
}

async fn client_response(ctx: Ctx, spec: StreamSpec, mut fut: client::ResponseFuture) {
    let idx = spec.idx;
    let sid = fut.stream_id().as_u32();
    let stop: Rc<RefCell<StopFlag>> = Default::default();
    if spec.client_polls_push {
        let pushes = fut.push_promises();
        sim::spawn(format!("client-pushes-{}", idx), TaskKind::App, client_push_listener(ctx.clone(), spec.clone(), pushes, stop.clone()));
    }
    if let Some(n) = spec.client_cancel_after {
        yield_n(n).await;
        let id = call(&ctx, Op::DropResponseFuture, idx, sid, 0, 0, false, None);
        drop(fut);
        ret(&ctx, Op::DropResponseFuture, id, idx, sid, 0, 0, false, Res::Ok, None);
        raise_stop(&stop);
        return;
    }
    if spec.respond_gate {
        // raw scripts: the application does not look at the response before the scenario gate opens
        poll_fn(sim::poll_gate).await;
    }
    if spec.client_polls_info {
        loop {
            let id = call(&ctx, Op::Informational, idx, sid, 0, 0, false, None);
            let r = poll_fn(|cx| fut.poll_informational(cx)).await;
            match r {
                Some(Ok(resp)) => {
                    let m = msg_of_response(&resp);
                    ret(&ctx, Op::Informational, id, idx, sid, 0, 0, false, Res::Ok, Some(m));
                }
                Some(Err(e)) => {
                    ret(&ctx, Op::Informational, id, idx, sid, 0, 0, false, Res::Err(Box::new(ErrInfo::from(&e))), None);
                    break;
                }
                None => {
                    ret(&ctx, Op::Informational, id, idx, sid, 0, 0, false, Res::End, None);
                    break;
                }
            }
        }
    }
    let id = call(&ctx, Op::Response, idx, sid, 0, 0, false, None);
    let r = (&mut fut).await;
    match r {
        Ok(resp) => {
            let m = msg_of_response(&resp);
            ret(&ctx, Op::Response, id, idx, sid, 0, 0, false, Res::Ok, Some(m));
            drop(fut);
            let clean = read_body(ctx, idx, idx * 2 + 1, resp.into_body(), spec.resp_read.clone()).await;
            if !clean && matches!(spec.resp_read.mode, ReadMode::StopAfter(_)) {
                // the application abandoned the response: it stops listening for promises as well.
                // (A response that *failed* does not stop the listener: waking it is h2's job - C06/C07.)
                raise_stop(&stop);
            }
        }
        Err(e) => {
            ret(&ctx, Op::Response, id, idx, sid, 0, 0, false, Res::Err(Box::new(ErrInfo::from(&e))), None);
        }
    }
}

/// One SendRequest clone issuing its share of requests sequentially.
/// Where a requester leaves its `SendRequest` handle when it is done instead of dropping it (a pooled connection).
pub type GiveBack = Option<Rc<RefCell<Option<client::SendRequest<BodyBuf>>>>>;

pub async fn client_requester(ctx: Ctx, mut sr: client::SendRequest<BodyBuf>, specs: Vec<StreamSpec>, done: Rc<RefCell<u32>>, give_back: GiveBack) {
    for spec in specs {
        yield_n(spec.start_delay).await;
        if spec.start_gate {
            poll_fn(sim::poll_gate).await;
        }
        let idx = spec.idx;
        let id = call(&ctx, Op::Ready, idx, 0, 0, 0, false, None);
        let r = poll_fn(|cx| sr.poll_ready(cx)).await;
        ret(&ctx, Op::Ready, id, idx, 0, 0, 0, false, res_of(&r), None);
        if r.is_err() {
            break;
        }
        let head_eos = spec.req.chunks.is_empty() && spec.req.eos == EosMode::OnHead && spec.req.abort.is_none();
        let req = build_request(&spec, idx, &spec.method, &spec.path, &spec.req.fields);
        let m = msg_of_request(&req);
        let id = call(&ctx, Op::SendRequest, idx, 0, 0, 0, head_eos, Some(m));
        match sr.send_request(req, head_eos) {
            Ok((fut, stream)) => {
                let sid = stream.stream_id().as_u32();
                ret(&ctx, Op::SendRequest, id, idx, sid, 0, 0, head_eos, Res::Ok, None);
                sim::spawn(
                    format!("client-send-{}", idx),
                    TaskKind::App,
                    send_body(ctx.clone(), idx, idx * 2, stream, spec.req.clone(), head_eos),
                );
                sim::spawn(format!("client-resp-{}", idx), TaskKind::App, client_response(ctx.clone(), spec.clone(), fut));
            }
            Err(e) => {
                ret(&ctx, Op::SendRequest, id, idx, 0, 0, 0, head_eos, Res::Err(Box::new(ErrInfo::from(&e))), None);
            }
        }
    }
    *done.borrow_mut() += 1;
    if let Some(pool) = give_back {
        // a pooled connection: the handle that made (and possibly queued) the requests stays alive. It is handed
        // back ready for the next request, the way a pool does (`ready()` before reuse).
        let id = call(&ctx, Op::Ready, 0, 0, 0, 0, false, None);
        let r = poll_fn(|cx| sr.poll_ready(cx)).await;
        ret(&ctx, Op::Ready, id, 0, 0, 0, 0, false, res_of(&r), None);
        *pool.borrow_mut() = Some(sr);
        return;
    }
    let id = call(&ctx, Op::DropSendRequest, 0, 0, 0, 0, false, None);
    drop(sr);
    ret(&ctx, Op::DropSendRequest, id, 0, 0, 0, 0, false, Res::Ok, None);
}

// ===== server =====

fn build_response(status: u16, fields: &Fields) -> Response<()> {
    let mut resp = Response::builder().status(status).body(()).unwrap();
    for (n, v) in fields {
        resp.headers_mut().append(HeaderName::from_bytes(n.as_bytes()).unwrap(), HeaderValue::from_bytes(v).unwrap());
    }
    resp
}

async fn server_pushed(ctx: Ctx, p: PushSpec, mut pushed: server::SendPushedResponse<BodyBuf>) {
    let sid = pushed.stream_id().as_u32();
    let head_eos = p.resp.chunks.is_empty() && p.resp.eos == EosMode::OnHead && p.resp.abort.is_none();
    let resp = build_response(p.status, &p.resp.fields);
    let m = msg_of_response(&resp);
    let id = call(&ctx, Op::SendResponse, p.idx, sid, 0, 0, head_eos, Some(m));
    match pushed.send_response(resp, head_eos) {
        Ok(stream) => {
            ret(&ctx, Op::SendResponse, id, p.idx, sid, 0, 0, head_eos, Res::Ok, None);
            drop(pushed);
            send_body(ctx, p.idx, p.idx * 2 + 1, stream, p.resp.clone(), head_eos).await;
        }
        Err(e) => {
            ret(&ctx, Op::SendResponse, id, p.idx, sid, 0, 0, head_eos, Res::Err(Box::new(ErrInfo::from(&e))), None);
        }
    }
}

fn do_push(ctx: &Ctx, spec: &StreamSpec, p: &PushSpec, respond: &mut server::SendResponse<BodyBuf>) {
    let mut req = Request::builder()
        .method("GET")
        .uri(format!("https://vp.test{}", p.path))
        .header("x-vp-id", p.idx.to_string())
        .body(())
        .unwrap();
    for (n, v) in &p.req_fields {
        req.headers_mut().append(HeaderName::from_bytes(n.as_bytes()).unwrap(), HeaderValue::from_bytes(v).unwrap());
    }
    let m = msg_of_request(&req);
    let psid = respond.stream_id().as_u32();
    let id = call(ctx, Op::PushRequest, p.idx, psid, spec.idx as u64, 0, false, Some(m));
    match respond.push_request(req) {
        Ok(pushed) => {
            ret(ctx, Op::PushRequest, id, p.idx, pushed.stream_id().as_u32(), spec.idx as u64, 0, false, Res::Ok, None);
            sim::spawn(format!("server-pushed-{}", p.idx), TaskKind::App, server_pushed(ctx.clone(), p.clone(), pushed));
        }
        Err(e) => {
            ret(ctx, Op::PushRequest, id, p.idx, 0, spec.idx as u64, 0, false, Res::Err(Box::new(ErrInfo::from(&e))), None);
        }
    }
}

async fn server_handler(ctx: Ctx, spec: Option<StreamSpec>, idx: u32, req: Request<RecvStream>, mut respond: server::SendResponse<BodyBuf>) {
    let sid = respond.stream_id().as_u32();
    let spec = match spec {
        Some(s) => s,
        None => {
            note(format!("server: request without known x-vp-id on stream {}", sid));
            // default: drain and answer 200
            let (_, body) = req.into_parts();
            read_body(ctx.clone(), idx, idx * 2, body, ReadPlan { mode: ReadMode::All, release: Release::Immediate, check_end_stream: false, pace: 0 }).await;
            let _ = respond.send_response(build_response(200, &vec![]), true);
            return;
        }
    };
    let (_parts, body) = req.into_parts();
    // request body reader
    let read_done = Rc::new(RefCell::new((false, None::<Waker>)));
    {
        let rd = read_done.clone();
        let ctx2 = ctx.clone();
        let plan = spec.req_read.clone();
        sim::spawn(format!("server-read-{}", idx), TaskKind::App, async move {
            read_body(ctx2, idx, idx * 2, body, plan).await;
            let w = {
                let mut b = rd.borrow_mut();
                b.0 = true;
                b.1.take()
            };
            if let Some(w) = w {
                w.wake();
            }
        });
    }
    if spec.respond_when == RespondWhen::AfterRequestRead {
        poll_fn(|cx| {
            let mut b = read_done.borrow_mut();
            if b.0 {
                Poll::Ready(())
            } else {
                b.1 = Some(cx.waker().clone());
                Poll::Pending
            }
        })
        .await;
    }
    yield_n(spec.respond_delay).await;
    if spec.respond_gate {
        poll_fn(sim::poll_gate).await;
    }
    if let Some(code) = spec.server_reset {
        let id = call(&ctx, Op::SendReset, idx, sid, code as u64, 1, false, None);
        respond.send_reset(Reason::from(code));
        ret(&ctx, Op::SendReset, id, idx, sid, code as u64, 1, false, Res::Ok, None);
        let id = call(&ctx, Op::DropSendResponse, idx, sid, 0, 0, false, None);
        drop(respond);
        ret(&ctx, Op::DropSendResponse, id, idx, sid, 0, 0, false, Res::Ok, None);
        return;
    }
    for p in spec.pushes.iter().filter(|p| p.before_response) {
        do_push(&ctx, &spec, p, &mut respond);
    }
    for (status, fields) in &spec.informational {
        let resp = build_response(*status, fields);
        let m = msg_of_response(&resp);
        let id = call(&ctx, Op::SendInformational, idx, sid, 0, 0, false, Some(m));
        let r = respond.send_informational(resp);
        ret(&ctx, Op::SendInformational, id, idx, sid, 0, 0, false, res_of(&r), None);
    }
    let head_eos = spec.resp.chunks.is_empty() && spec.resp.eos == EosMode::OnHead && spec.resp.abort.is_none();
    let late_pushes: Vec<PushSpec> = spec.pushes.iter().filter(|p| !p.before_response).cloned().collect();
    let resp = build_response(spec.status, &spec.resp.fields);
    let m = msg_of_response(&resp);
    let id = call(&ctx, Op::SendResponse, idx, sid, 0, 0, head_eos, Some(m));
    match respond.send_response(resp, head_eos) {
        Ok(stream) => {
            ret(&ctx, Op::SendResponse, id, idx, sid, 0, 0, head_eos, Res::Ok, None);
            // pushes after the response head are legal only while our half of the parent is still open:
            // after a head that ended the stream the library has to refuse them
            for p in &late_pushes {
                do_push(&ctx, &spec, p, &mut respond);
            }
            let id = call(&ctx, Op::DropSendResponse, idx, sid, 0, 0, false, None);
            drop(respond);
            ret(&ctx, Op::DropSendResponse, id, idx, sid, 0, 0, false, Res::Ok, None);
            send_body(ctx, idx, idx * 2 + 1, stream, spec.resp.clone(), head_eos).await;
        }
        Err(e) => {
            ret(&ctx, Op::SendResponse, id, idx, sid, 0, 0, head_eos, Res::Err(Box::new(ErrInfo::from(&e))), None);
        }
    }
}

/// The task owning the server `Connection`: handshake, accept loop, commands.
pub async fn server_main(ctx: Ctx, io: PipeEnd, cfg: EpCfg, specs: Vec<StreamSpec>, ctl: ConnCtlRef, hooks: crate::mon::snap::SnapHook, accept_limit: Option<usize>) {
    let id = call(&ctx, Op::Handshake, 0, 0, 0, 0, false, None);
    let hs = server_builder(&cfg).handshake::<_, BodyBuf>(io);
    let mut conn = match hs.await {
        Ok(c) => {
            ret(&ctx, Op::Handshake, id, 0, 0, 0, 0, false, Res::Ok, None);
            c
        }
        Err(e) => {
            ret(&ctx, Op::Handshake, id, 0, 0, 0, 0, false, Res::Err(Box::new(ErrInfo::from(&e))), None);
            ctl.borrow_mut().done = true;
            return;
        }
    };
    let pp = Rc::new(RefCell::new(conn.ping_pong()));
    ctl.borrow_mut().pp = Some(pp.clone());
    let cid = call(&ctx, Op::ConnDone, 0, 0, 0, 0, false, None);
    let mut accepted = 0usize;
    let mut dropped = false;
    let mut acc_id = call(&ctx, Op::Accept, 0, 0, 0, 0, false, None);
    let r: Result<(), h2::Error> = poll_fn(|cx| {
        loop {
            let cmd = ctl.borrow_mut().cmds.pop_front();
            match cmd {
                None => break,
                Some(ConnCmd::Op(k)) => match k {
                    ConnOpKind::Ping => {
                        sim::spawn("server-ping", TaskKind::App, handle_ping(ctx.clone(), pp.clone()));
                    }
                    ConnOpKind::SetTargetWindow(v) => {
                        api(&ctx, Op::SetTargetWindow, Phase::Ret, 0, 0, 0, v as u64, 0, false, Res::Ok, None);
                        conn.set_target_window_size(v);
                        hooks.set_target(v);
                    }
                    ConnOpKind::SetInitialWindow(v) => {
                        let r = conn.set_initial_window_size(v);
                        api(&ctx, Op::SetInitialWindow, Phase::Ret, 0, 0, 0, v as u64, 0, false, res_of(&r), None);
                    }
                    ConnOpKind::GracefulShutdown => {
                        api(&ctx, Op::GracefulShutdown, Phase::Ret, 0, 0, 0, 0, 0, false, Res::Ok, None);
                        conn.graceful_shutdown();
                    }
                    ConnOpKind::AbruptShutdown(code) => {
                        api(&ctx, Op::AbruptShutdown, Phase::Ret, 0, 0, 0, code as u64, 0, false, Res::Ok, None);
                        conn.abrupt_shutdown(Reason::from(code));
                    }
                    ConnOpKind::DropConn => {
                        dropped = true;
                        return Poll::Ready(Ok(()));
                    }
                    ConnOpKind::Nop => hooks.force_next(),
                },
            }
        }
        ctl.borrow_mut().waker = Some(cx.waker().clone());
        loop {
            sim::log(ctx.conn, EvK::ConnPoll { side: ctx.side, begin: true });
            if hooks.want() { hooks.before(&conn.verif_snapshot()); }
            let stop_accepting = accept_limit.map(|l| accepted >= l).unwrap_or(false);
            let r = if stop_accepting {
                conn.poll_closed(cx).map(|r| match r {
                    Ok(()) => None,
                    Err(e) => Some(Err(e)),
                })
            } else {
                conn.poll_accept(cx)
            };
            sim::log(ctx.conn, EvK::ConnPoll { side: ctx.side, begin: false });
            if hooks.want() { hooks.after(&conn.verif_snapshot()); }
            match r {
                Poll::Pending => return Poll::Pending,
                Poll::Ready(None) => {
                    ret(&ctx, Op::Accept, acc_id, 0, 0, 0, 0, false, Res::End, None);
                    return Poll::Ready(Ok(()));
                }
                Poll::Ready(Some(Err(e))) => {
                    ret(&ctx, Op::Accept, acc_id, 0, 0, 0, 0, false, Res::Err(Box::new(ErrInfo::from(&e))), None);
                    return Poll::Ready(Err(e));
                }
                Poll::Ready(Some(Ok((req, respond)))) => {
                    accepted += 1;
                    let idx = vp_id(req.headers());
                    let m = msg_of_request(&req);
                    let sid = respond.stream_id().as_u32();
                    ret(&ctx, Op::Accept, acc_id, idx, sid, 0, 0, req.body().is_end_stream(), Res::Ok, Some(m));
                    let spec = specs.iter().find(|s| s.idx == idx).cloned();
                    sim::spawn(format!("server-handler-{}", idx), TaskKind::App, server_handler(ctx.clone(), spec, idx, req, respond));
                    acc_id = call(&ctx, Op::Accept, 0, 0, 0, 0, false, None);
                }
            }
        }
    })
    .await;
    ctl.borrow_mut().done = true;
    if dropped {
        // the accept loop ends with the connection object
        ret(&ctx, Op::Accept, acc_id, 0, 0, 0, 0, false, Res::End, None);
        api(&ctx, Op::DropConn, Phase::Ret, 0, 0, 0, 0, 0, false, Res::Ok, None);
        drop_caught(conn, "connection");
        ret(&ctx, Op::ConnDone, cid, 0, 0, 0, 0, true, Res::End, None);
    } else {
        ret(&ctx, Op::ConnDone, cid, 0, 0, 0, 0, false, res_of(&r), None);
        if ctl.borrow().keep_conn {
            ctl.borrow_mut().kept.push(Box::new(conn));
        } else {
            drop_caught(conn, "connection");
        }
    }
}

/// Controller issuing connection-level operations after a number of yields.
pub async fn controller(ops: Vec<ConnOp>, client_ctl: ConnCtlRef, server_ctl: ConnCtlRef) {
    let mut ops = ops;
    ops.sort_by_key(|o| o.after_yields);
    let mut elapsed = 0;
    for o in ops {
        if o.after_yields > elapsed {
            yield_n(o.after_yields - elapsed).await;
            elapsed = o.after_yields;
        }
        let ctl = if o.side_server { &server_ctl } else { &client_ctl };
        if ctl.borrow().done {
            continue;
        }
        send_cmd(ctl, ConnCmd::Op(o.kind.clone()));
    }
}
