//! Body buffer type handed to h2: a `Buf` made of several non-contiguous
//! pieces, as applications that chain buffers (`Bytes::chain`, rope-like
//! bodies) produce. Where the pieces are cut is a deterministic function of the
//! content length, so a scenario stays reproducible from its seed.

use bytes::{Buf, Bytes};
use std::collections::VecDeque;
use std::io::IoSlice;

#[derive(Debug, Clone, Default)]
pub struct Seg {
    parts: VecDeque<Bytes>,
    rem: usize,
}

impl Seg {
    pub fn new() -> Seg {
        Seg::default()
    }

    /// Cuts `b` into 1..=4 pieces: every third length stays contiguous, the others get a short first piece
    /// (1..=13 octets), often a second cut within the next 251 octets and a third in the middle of the rest.
    pub fn from_bytes(mut b: Bytes) -> Seg {
        let len = b.len();
        let mut parts = VecDeque::new();
        if len >= 2 && len % 3 != 0 {
            let k1 = (1 + len % 13).min(len - 1);
            parts.push_back(b.split_to(k1));
            if len % 2 == 1 && b.len() >= 2 {
                let k2 = (1 + len % 251).min(b.len() - 1);
                parts.push_back(b.split_to(k2));
            }
            if len % 5 == 0 && b.len() >= 2 {
                let k3 = b.len() / 2;
                parts.push_back(b.split_to(k3));
            }
        }
        if !b.is_empty() {
            parts.push_back(b);
        }
        Seg { parts, rem: len }
    }

    pub fn pieces(&self) -> usize {
        self.parts.len()
    }
}

impl From<Bytes> for Seg {
    fn from(b: Bytes) -> Seg {
        Seg::from_bytes(b)
    }
}

impl Buf for Seg {
    fn remaining(&self) -> usize {
        self.rem
    }

    fn chunk(&self) -> &[u8] {
        self.parts.front().map(|p| &p[..]).unwrap_or(&[])
    }

    fn advance(&mut self, mut cnt: usize) {
        assert!(cnt <= self.rem, "advance past the end of a Seg");
        self.rem -= cnt;
        while cnt > 0 {
            let front = self.parts.front_mut().expect("Seg accounting");
            if cnt < front.len() {
                front.advance(cnt);
                return;
            }
            cnt -= front.len();
            self.parts.pop_front();
        }
    }

    fn chunks_vectored<'a>(&'a self, dst: &mut [IoSlice<'a>]) -> usize {
        let mut n = 0;
        for p in &self.parts {
            if n == dst.len() {
                break;
            }
            if !p.is_empty() {
                dst[n] = IoSlice::new(&p[..]);
                n += 1;
            }
        }
        n
    }
}

#[cfg(test)]
mod tests {
    use super::*;

    #[test]
    fn seg_is_a_faithful_buf() {
        for len in 0..2000usize {
            let v: Vec<u8> = (0..len).map(|i| (i * 31 + len) as u8).collect();
            let mut s = Seg::from_bytes(Bytes::from(v.clone()));
            assert_eq!(s.remaining(), len);
            let mut out = Vec::new();
            let mut step = 1 + len % 7;
            while s.has_remaining() {
                let c = s.chunk();
                assert!(!c.is_empty());
                let n = step.min(c.len());
                out.extend_from_slice(&c[..n]);
                s.advance(n);
                step = step * 3 % 17 + 1;
            }
            assert_eq!(out, v);
        }
    }
}
