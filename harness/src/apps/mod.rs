pub mod actors;
pub mod seg;
pub mod spec;
