pub mod actors;
pub mod spec;
