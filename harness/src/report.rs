//! Shard-level aggregation and JSON output shared by all engine binaries.

use crate::mon::{Stats, Violation};
use serde_json::{json, Value};
use std::collections::{BTreeMap, BTreeSet};

pub struct Args {
    pub map: BTreeMap<String, String>,
}

impl Args {
    pub fn parse() -> Args {
        let mut map = BTreeMap::new();
        let v: Vec<String> = std::env::args().skip(1).collect();
        let mut i = 0;
        while i < v.len() {
            if let Some(k) = v[i].strip_prefix("--") {
                if i + 1 < v.len() && !v[i + 1].starts_with("--") {
                    map.insert(k.to_string(), v[i + 1].clone());
                    i += 2;
                } else {
                    map.insert(k.to_string(), "1".to_string());
                    i += 1;
                }
            } else {
                i += 1;
            }
        }
        Args { map }
    }
    pub fn get(&self, k: &str) -> Option<&str> {
        self.map.get(k).map(|s| s.as_str())
    }
    pub fn u64(&self, k: &str, d: u64) -> u64 {
        self.get(k).and_then(|s| s.parse().ok()).unwrap_or(d)
    }
    pub fn str(&self, k: &str, d: &str) -> String {
        self.get(k).unwrap_or(d).to_string()
    }
    pub fn flag(&self, k: &str) -> bool {
        self.map.contains_key(k)
    }
}

pub struct Shard {
    pub engine: String,
    pub prop: String,
    pub evaluations: u64,
    pub nontrivial: u64,
    pub fingerprints: BTreeSet<u64>,
    pub stats: Stats,
    /// signature -> (count, first violation, first seed, replay path)
    pub violations: BTreeMap<String, (u64, Violation, u64, String)>,
    pub other_notes: BTreeMap<String, u64>,
    pub samples: Vec<Value>,
    pub inconclusive: u64,
    pub replay_dir: String,
    pub max_fps: usize,
    pub replay_args: Vec<String>,
    /// other properties whose oracles decide this check too (`--also C02,C05`)
    pub also: Vec<String>,
}

impl Shard {
    pub fn new(engine: &str, prop: &str, replay_dir: &str) -> Shard {
        Shard {
            engine: engine.to_string(),
            prop: prop.to_string(),
            evaluations: 0,
            nontrivial: 0,
            fingerprints: BTreeSet::new(),
            stats: Stats::default(),
            violations: BTreeMap::new(),
            other_notes: BTreeMap::new(),
            samples: Vec::new(),
            inconclusive: 0,
            replay_dir: replay_dir.to_string(),
            max_fps: 200_000,
            replay_args: Vec::new(),
            also: std::env::args().collect::<Vec<_>>().windows(2).find(|w| w[0] == "--also").map(|w| w[1].split(',').map(|x| x.to_string()).collect()).unwrap_or_default(),
        }
    }

    /// Record one execution. `scenario` is only serialised when needed.
    #[allow(clippy::too_many_arguments)]
    pub fn record(
        &mut self,
        seed: u64,
        violations: &[Violation],
        stats: &Stats,
        fp: u64,
        nontrivial: bool,
        inconclusive: bool,
        scenario: &dyn Fn() -> Value,
        trace_tail: &[String],
        notes: &[String],
    ) {
        self.evaluations += 1;
        self.stats.merge(stats);
        if inconclusive {
            self.inconclusive += 1;
        }
        if nontrivial {
            self.nontrivial += 1;
            if self.fingerprints.len() < self.max_fps {
                self.fingerprints.insert(fp);
            }
            if self.samples.len() < 3 {
                self.samples.push(json!({"seed": seed, "fingerprint": format!("{:016x}", fp), "scenario": scenario()}));
            }
        }
        let adopted: Vec<Violation> = violations
            .iter()
            .map(|v| {
                if v.prop != self.prop && self.also.iter().any(|a| a == v.prop) {
                    // static str for the property id of this check
                    let p: &'static str = Box::leak(self.prop.clone().into_boxed_str());
                    Violation { prop: p, rule: format!("{}:{}", v.prop, v.rule), detail: v.detail.clone() }
                } else {
                    v.clone()
                }
            })
            .collect();
        for v in &adopted {
            let sig = v.signature();
            if v.prop != self.prop && self.prop != "ALL" {
                *self.other_notes.entry(sig).or_insert(0) += 1;
                continue;
            }
            if let Some(e) = self.violations.get_mut(&sig) {
                e.0 += 1;
                continue;
            }
            let path = format!("{}/{}-{}-{}.json", self.replay_dir, v.prop, self.engine, seed);
            let body = json!({
                "property": v.prop, "rule": v.rule, "detail": v.detail, "engine": self.engine,
                "seed": seed, "scenario": scenario(), "notes": notes, "trace_tail": trace_tail, "replay_args": self.replay_args,
                "replay_cmd": format!("./check {} --replay {}", v.prop, path),
            });
            let _ = std::fs::create_dir_all(&self.replay_dir);
            let _ = std::fs::write(&path, serde_json::to_string_pretty(&body).unwrap());
            self.violations.insert(sig, (1, v.clone(), seed, path));
        }
    }

    pub fn to_json(&self) -> Value {
        json!({
            "engine": self.engine,
            "prop": self.prop,
            "evaluations": self.evaluations,
            "nontrivial": self.nontrivial,
            "fingerprints": self.fingerprints.iter().map(|f| format!("{:x}", f)).collect::<Vec<_>>(),
            "stats": self.stats.0,
            "violations": self.violations.iter().map(|(sig, (n, v, seed, path))| json!({
                "signature": sig, "count": n, "prop": v.prop, "rule": v.rule, "detail": v.detail, "seed": seed, "replay": path,
            })).collect::<Vec<_>>(),
            "other_props": self.other_notes,
            "samples": self.samples,
            "inconclusive": self.inconclusive,
        })
    }

    pub fn print(&self) {
        // one write for the whole line: several interpreters may share this stdout (Miri many-seeds)
        use std::io::Write;
        let line = format!("\nSHARD-RESULT {}\n", serde_json::to_string(&self.to_json()).unwrap());
        let out = std::io::stdout();
        let mut l = out.lock();
        let _ = l.write_all(line.as_bytes());
        let _ = l.flush();
    }
}
