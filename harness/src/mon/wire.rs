//! Wire monitors: one pass over the merged trace per judged endpoint E.
//!
//! Knowledge ambiguity is always resolved in E's favour: credit (WINDOW_UPDATE,
//! closing events) counts from the instant the frame's last byte was *read* by
//! E's transport, obligations from settings count from E's own SETTINGS ACK.

use super::{Stats, View, Violation};
use crate::trace::{EvK, Op, Phase, Res, Side};
use crate::wire::frame::*;
use std::collections::{BTreeMap, BTreeSet, VecDeque};

#[derive(Default, Debug, Clone)]
struct PeerSettings {
    iws: Option<u32>,
    mfs: Option<u32>,
    mcs: Option<u32>,
    push: Option<u32>,
    hts: Option<u32>,
}

#[derive(Default, Debug)]
struct SendSt {
    head_sent: bool,
    final_head_sent: bool,
    data_sent: bool,
    es_sent: bool,
    rst_sent: u32,
    rst_code: Option<u32>,
    sent_bytes: i64,
    wu_credit: i64,
    // concurrency tracking
    opened_by_e: bool,
    es_read_by_e: bool,
    rst_read_by_e: bool,
    counted_open: bool,
    /// E's application has submitted END_STREAM / a reset through the API (h2 regards the
    /// send half as closed from that moment, before the frame reaches the wire)
    es_submitted: bool,
    rst_submitted: bool,
    /// E read a frame of the peer on this stream after its latest RST_STREAM was written
    peer_frame_after_rst: bool,
    /// handles of an accepted stream the server application has let go of (all of them gone = the library
    /// schedules the implicit reset and frees the concurrency slot, before the RST_STREAM reaches the wire)
    h_resp_dropped: bool,
    h_send_created: bool,
    h_send_dropped: bool,
    h_recv_dropped: bool,
}

pub struct WireOut {
    pub violations: Vec<Violation>,
    pub stats: Stats,
    /// behaviour fingerprint of E's output (frame types/flags/stream classes)
    pub fp: u64,
}

/// `e`: the endpoint being judged.
pub fn check_endpoint(v: &View, e: Side) -> WireOut {
    let mut viol: Vec<Violation> = Vec::new();
    let mut stats = Stats::default();
    let mut fp = crate::rng::Fnv::default();
    let ed = e.wdir() as u8; // direction E writes
    let pd = 1 - ed; // direction the peer writes
    let e_is_client = e == Side::Client;
    let e_parity = if e_is_client { 1 } else { 0 };
    let p = |s: &str| format!("{}.{}", e.name(), s);

    let mut streams: BTreeMap<u32, SendSt> = BTreeMap::new();
    // settings the peer has written and E has not yet acknowledged
    let mut pending_peer_settings: VecDeque<PeerSettings> = VecDeque::new();
    let mut acked = PeerSettings::default();
    let mut acks_written: u64 = 0;
    let mut peer_settings_written: u64 = 0;
    let mut peer_settings_read: u64 = 0;
    let mut conn_sent: i64 = 0;
    let mut conn_credit: i64 = 65_535;
    let mut max_e_opened: u32 = 0;
    let mut max_peer_opened: u32 = 0;
    let mut peer_pings_written: VecDeque<[u8; 8]> = VecDeque::new();
    let mut peer_pings_read: u64 = 0;
    let mut pongs_written: u64 = 0;
    let mut e_pings_written: u64 = 0;
    let mut goaway_last: Option<u32> = None;
    let mut goaways: u32 = 0;
    let mut goaway_error_sent = false;
    let mut accepted_ids: Vec<(u64, u32)> = Vec::new(); // (t, sid) of accept() returns on E
    let mut e_advertised_mcs: Option<u32> = None;
    let mut e_settings_written: u64 = 0;
    let mut e_acks_read: u64 = 0;
    let mut stray_ack_from_peer = false;
    let mut peer_acks_written: u64 = 0;
    let mut peer_goaway_read: Option<(u32, u32)> = None;
    let mut open_count: i64 = 0;
    let mut ids_exhausted_frames = 0u64;
    let mut once: BTreeSet<String> = BTreeSet::new();
    let mut fail = |viol: &mut Vec<Violation>, prop: &'static str, rule: &str, detail: String| {
        if once.insert(format!("{}{}", prop, rule)) {
            viol.push(Violation::new(prop, rule, detail));
        }
    };
    // peer-initiated streams accepted by E's application and still certainly active
    let mut accepted_active: BTreeMap<u32, ()> = BTreeMap::new();
    let mut refused_by_e: BTreeSet<u32> = BTreeSet::new();
    // stream ids on which the peer has written any frame (a RST_STREAM answering such a frame is a
    // reaction to the peer, even if the id is formally idle, e.g. PRIORITY depending on itself)
    let mut peer_touched: BTreeSet<u32> = BTreeSet::new();

    // A header block is recorded when its last CONTINUATION is written, but its first fragment already
    // opens the stream for E (which may answer it - e.g. reset a malformed request - before the block is
    // complete). For every peer write: (t of completion, stream opened by a multi-frame block or 0).
    let peer_writes: Vec<(u64, u32)> = v
        .w
        .trace
        .evs
        .iter()
        .filter(|ev| ev.conn == v.conn)
        .filter_map(|ev| match &ev.k {
            EvK::W { dir, idx } if *dir == pd => {
                let f = v.frame(*dir, *idx);
                let opened = match &f.body {
                    Body::Headers { .. } if f.parts.len() > 1 => f.sid,
                    Body::PushPromise { promised, .. } if f.parts.len() > 1 => *promised,
                    _ => 0,
                };
                Some((ev.t, opened))
            }
            _ => None,
        })
        .collect();
    // first connection error that E's library detected itself and reported to a handle: (t, code)
    let lib_conn_error: Option<(u64, u32)> = v.evs().iter().filter(|ev| ev.conn == v.conn).find_map(|ev| match &ev.k {
        EvK::Api(a) if a.side == e && a.phase == Phase::Ret => match a.res.err() {
            Some(er) if er.is_go_away && er.is_library && !er.is_remote && er.reason.map_or(false, |r| r != 0) => Some((ev.t, er.reason.unwrap())),
            _ => None,
        },
        _ => None,
    });
    let block_in_flight = |now: u64, sid: u32| -> bool {
        let i = peer_writes.partition_point(|(t, _)| *t <= now);
        match peer_writes.get(i) {
            Some((_, opened)) => *opened == sid && sid != 0,
            // the history ends inside a block of the peer
            None => v.w.pipes[v.conn as usize].dirs[pd as usize].parser.unfinished_block_opens() == Some(sid),
        }
    };

    // GOAWAY frames E wrote after it had reported a connection error it detected itself: (t, code)
    let mut goaway_codes_after_error: Vec<(u64, u32)> = Vec::new();
    for ev in v.evs() {
        if ev.conn != v.conn {
            continue;
        }
        match &ev.k {
            // E closes its write side of its own accord: what it had to say about the error has been said. A
            // graceful-shutdown GOAWAY(NO_ERROR) queued earlier may precede the one with the error code; having
            // written only NO_ERROR ones is the violation (the peer is told nothing went wrong).
            EvK::Shutdown { dir } if *dir == ed => {
                if let Some((te, r)) = lib_conn_error {
                    if !goaway_codes_after_error.is_empty() && goaway_codes_after_error.iter().all(|(_, c)| *c == 0) {
                        fail(
                            &mut viol,
                            "C09",
                            "goaway-no-error-after-detected-connection-error",
                            format!("{}: handles were failed at t={} with a locally detected connection error (code {}), but every GOAWAY written afterwards (at t={:?}) carries NO_ERROR and the endpoint then closed its write side", e.name(), te, r, goaway_codes_after_error.iter().map(|(t, _)| *t).collect::<Vec<_>>()),
                        );
                    }
                }
            }
            EvK::W { dir, idx } if *dir == pd => {
                // the peer wrote a frame (permissive knowledge for idle rules, and obligations queue)
                let f = v.frame(*dir, *idx);
                if f.sid != 0 {
                    peer_touched.insert(f.sid);
                }
                match &f.body {
                    Body::Settings { ack: false, entries } => {
                        peer_settings_written += 1;
                        let mut ps = PeerSettings::default();
                        for (id, val) in entries {
                            match *id {
                                S_INITIAL_WINDOW_SIZE => ps.iws = Some(*val),
                                S_MAX_FRAME_SIZE => ps.mfs = Some(*val),
                                S_MAX_CONCURRENT_STREAMS => ps.mcs = Some(*val),
                                S_ENABLE_PUSH => ps.push = Some(*val),
                                S_HEADER_TABLE_SIZE => ps.hts = Some(*val),
                                _ => {}
                            }
                        }
                        pending_peer_settings.push_back(ps);
                    }
                    Body::Settings { ack: true, .. } => {
                        peer_acks_written += 1;
                        if peer_acks_written > e_settings_written {
                            stray_ack_from_peer = true;
                        }
                    }
                    Body::Ping { ack: false, payload } => {
                        peer_pings_written.push_back(*payload);
                    }
                    Body::Headers { .. } => {
                        if f.sid % 2 != e_parity && f.sid > max_peer_opened {
                            max_peer_opened = f.sid;
                        }
                    }
                    Body::PushPromise { promised, .. } => {
                        if *promised % 2 != e_parity && *promised > max_peer_opened {
                            max_peer_opened = *promised;
                        }
                    }
                    _ => {}
                }
            }
            EvK::R { dir, idx } if *dir == pd => {
                // E's transport has read a complete peer frame
                let f = v.frame(*dir, *idx);
                match &f.body {
                    Body::WindowUpdate { inc } => {
                        if f.sid == 0 {
                            conn_credit += *inc as i64;
                        } else {
                            streams.entry(f.sid).or_default().wu_credit += *inc as i64;
                        }
                    }
                    Body::Settings { ack: false, .. } => peer_settings_read += 1,
                    Body::Settings { ack: true, .. } => e_acks_read += 1,
                    Body::Ping { ack: false, .. } => peer_pings_read += 1,
                    Body::Rst { .. } => {
                        let st = streams.entry(f.sid).or_default();
                        st.rst_read_by_e = true;
                        if st.counted_open {
                            st.counted_open = false;
                            open_count -= 1;
                        }
                        accepted_active.remove(&f.sid);
                    }
                    Body::GoAway { last, code, .. } => {
                        peer_goaway_read = Some((*last, *code));
                        // streams E initiated above the last-stream-id are over for both sides from here on: the
                        // peer will not process them, E fails them without putting anything on the wire
                        for (sid, st) in streams.iter_mut() {
                            if st.opened_by_e && st.counted_open && *sid > *last && *sid % 2 == e_parity {
                                st.counted_open = false;
                                open_count -= 1;
                            }
                        }
                    }
                    _ => {}
                }
                if f.sid != 0 {
                    let st = streams.entry(f.sid).or_default();
                    if st.rst_sent > 0 {
                        st.peer_frame_after_rst = true;
                    }
                }
                if f.end_stream() {
                    let st = streams.entry(f.sid).or_default();
                    st.es_read_by_e = true;
                    if st.es_sent && st.counted_open {
                        st.counted_open = false;
                        open_count -= 1;
                    }
                    if st.es_sent || st.es_submitted || (e_is_client && f.sid % 2 == 0) {
                        accepted_active.remove(&f.sid);
                    }
                }
            }
            EvK::Api(a) if a.side == e && !e_is_client && a.phase == Phase::Ret && a.sid != 0 && matches!(a.op, Op::DropSendResponse | Op::DropSend | Op::DropRecv) => {
                let st = streams.entry(a.sid).or_default();
                match a.op {
                    Op::DropSendResponse => st.h_resp_dropped = true,
                    Op::DropSend => st.h_send_dropped = true,
                    _ => st.h_recv_dropped = true,
                }
                if st.h_resp_dropped && st.h_recv_dropped && (!st.h_send_created || st.h_send_dropped) {
                    // every handle is gone: finished as far as the application is concerned
                    accepted_active.remove(&a.sid);
                }
            }
            EvK::Api(a) if a.side == e && a.phase == Phase::Ret && a.sid != 0 && matches!(a.op, Op::SendData | Op::SendTrailers | Op::SendResponse | Op::SendReset) => {
                if let Res::Ok = a.res {
                    let st = streams.entry(a.sid).or_default();
                    if a.op == Op::SendResponse {
                        st.h_send_created = true;
                    }
                    if a.op == Op::SendReset {
                        st.rst_submitted = true;
                        accepted_active.remove(&a.sid);
                    } else if a.flag {
                        st.es_submitted = true;
                        if st.es_read_by_e {
                            accepted_active.remove(&a.sid);
                        }
                    }
                }
            }
            EvK::Api(a) if a.side == e && e_is_client && a.phase == Phase::Ret && matches!(a.op, Op::DropRecv) && a.sid % 2 == 0 && a.sid != 0 => {
                // the application let go of a pushed response body: no longer active for it
                accepted_active.remove(&a.sid);
            }
            EvK::Api(a) if a.side == e && e_is_client && a.phase == Phase::Ret && a.op == Op::PushedResponse => {
                if let Res::Ok = a.res {
                    stats.inc(&p("pushed_responses_surfaced"));
                    if refused_by_e.contains(&a.sid) {
                        fail(&mut viol, "C05", "refused-stream-surfaced", format!("{}: pushed stream {} was answered with REFUSED_STREAM and its response was later handed to the application", e.name(), a.sid));
                    }
                    let st = streams.entry(a.sid).or_default();
                    let still = !(st.rst_read_by_e || st.rst_sent > 0 || st.rst_submitted || st.es_read_by_e);
                    if still {
                        accepted_active.insert(a.sid, ());
                    }
                    if let Some(l) = e_advertised_mcs {
                        stats.max(&p("max.accepted_active"), accepted_active.len() as u64);
                        if accepted_active.len() as u64 > l as u64 {
                            fail(&mut viol, "C05", "surfaced-pushed-streams-exceed-advertised-limit", format!("{}: {} pushed streams handed to the application are certainly active > advertised {}: {:?}", e.name(), accepted_active.len(), l, accepted_active.keys().collect::<Vec<_>>()));
                        }
                        if accepted_active.len() as u64 == l as u64 {
                            stats.inc(&p("accept_at_limit"));
                        }
                    }
                }
            }
            EvK::Api(a) if a.side == e && a.phase == Phase::Ret && a.op == Op::Accept => {
                if let Res::Ok = a.res {
                    accepted_ids.push((ev.t, a.sid));
                    stats.inc(&p("accepts"));
                    if refused_by_e.contains(&a.sid) {
                        fail(&mut viol, "C05", "refused-stream-surfaced", format!("{}: stream {} was answered with REFUSED_STREAM and later returned by accept()", e.name(), a.sid));
                    }
                    if let Some(g) = goaway_last {
                        if a.sid > g {
                            fail(&mut viol, "C15", "accept-above-sent-goaway", format!("{}: accept() returned stream {} after GOAWAY(last={}) was written", e.name(), a.sid, g));
                        }
                    }
                    // acceptor-side concurrency (E's own advertised limit)
                    let st = streams.entry(a.sid).or_default();
                    let still = !(st.rst_read_by_e || st.rst_sent > 0 || st.rst_submitted || ((st.es_sent || st.es_submitted) && st.es_read_by_e));
                    if still {
                        accepted_active.insert(a.sid, ());
                    }
                    if let Some(l) = e_advertised_mcs {
                        stats.max(&p("max.accepted_active"), accepted_active.len() as u64);
                        if accepted_active.len() as u64 > l as u64 {
                            fail(&mut viol, "C05", "accept-exceeds-advertised-limit", format!("{}: {} accepted streams certainly active > advertised {}: {:?}", e.name(), accepted_active.len(), l, accepted_active.keys().collect::<Vec<_>>()));
                        }
                        if accepted_active.len() as u64 == l as u64 {
                            stats.inc(&p("accept_at_limit"));
                        }
                    }
                }
            }
            EvK::W { dir, idx } if *dir == ed => {
                let f = v.frame(*dir, *idx);
                let t = ev.t;
                // fingerprint: type, flags, stream class
                let class = if f.sid == 0 { 0 } else if f.sid % 2 == e_parity { 1 } else { 2 };
                fp.add(&[f.typ, f.flags & 0x2d, class, (f.parts.len().min(255)) as u8]);
                stats.inc(&p(&format!("frames.{}", type_name(f.typ))));

                // ---- C12 wire rule: payload <= peer's MAX_FRAME_SIZE acknowledged by E
                let mfs = acked.mfs.unwrap_or(16_384);
                for (pt, _pf, plen) in &f.parts {
                    if *plen > mfs {
                        fail(&mut viol, "C12", "frame-exceeds-peer-max-frame-size", format!("{}: {} part type {} payload {} > acked MAX_FRAME_SIZE {} at t={}", e.name(), f.short(), pt, plen, mfs, t));
                    }
                    if *plen == mfs {
                        stats.inc(&p("frames_at_max_size"));
                    }
                }
                if let Body::Malformed(m) = &f.body {
                    fail(&mut viol, "C12", "emitted-malformed-frame", format!("{}: {} ({})", e.name(), f.short(), m));
                }

                // ---- C04 rule 6: frame type vs stream kind
                let conn_level = matches!(f.typ, T_SETTINGS | T_PING | T_GOAWAY);
                let stream_level = matches!(f.typ, T_DATA | T_HEADERS | T_RST | T_PUSH_PROMISE | T_CONTINUATION | T_PRIORITY);
                if (conn_level && f.sid != 0) || (stream_level && f.sid == 0) {
                    fail(&mut viol, "C04", "frame-type-on-wrong-stream-kind", format!("{}: {}", e.name(), f.short()));
                }
                if f.interleaved {
                    fail(&mut viol, "C04", "header-block-not-contiguous", format!("{}: {}", e.name(), f.short()));
                }
                if let Body::Headers { block, .. } | Body::PushPromise { block, .. } = &f.body {
                    if block.n_continuations > 0 {
                        stats.inc(&p("header_blocks_with_continuation"));
                    }
                    if let Some(err) = &block.hpack_error {
                        fail(&mut viol, "C10", "emitted-block-undecodable", format!("{}: {} hpack error {}", e.name(), f.short(), err));
                    }
                    // ---- C13, generating side: no header section E emits may violate RFC 9113 8.2 / 8.3 field rules
                    // (whatever the application handed to the send API, the API has to refuse it)
                    stats.inc(&p("emitted_header_blocks_judged"));
                    let mut regular_seen = false;
                    for (n, val) in &block.fields {
                        let name = String::from_utf8_lossy(n).to_string();
                        let bad: Option<String> = if n.first() == Some(&b':') {
                            if regular_seen { Some("pseudo-after-regular".into()) } else { None }
                        } else {
                            regular_seen = true;
                            if n.iter().any(|c| c.is_ascii_uppercase()) {
                                Some("uppercase-name".into())
                            } else if matches!(name.as_str(), "connection" | "keep-alive" | "proxy-connection" | "transfer-encoding" | "upgrade") {
                                Some(format!("connection-specific:{}", name))
                            } else if name == "te" && val.as_slice() != b"trailers" {
                                Some("te-not-trailers".into())
                            } else {
                                None
                            }
                        };
                        if let Some(b) = bad {
                            fail(&mut viol, "C13", "malformed-message-emitted", format!("{}: {} carries {} ({}: {})", e.name(), f.short(), b, name, String::from_utf8_lossy(val)));
                        }
                    }
                    // size updates must respect the peer's acknowledged HEADER_TABLE_SIZE
                    let allowed = acked.hts.unwrap_or(4096) as u64;
                    for su in &block.size_updates {
                        stats.inc(&p("hpack_size_updates"));
                        if *su > allowed.max(4096) {
                            // before E's ACK the old (possibly larger) value may still be in use: permissive max
                            fail(&mut viol, "C10", "size-update-exceeds-allowed", format!("{}: size update {} > allowed {}", e.name(), su, allowed));
                        }
                    }
                }

                match &f.body {
                    Body::Settings { ack: true, .. } => {
                        acks_written += 1;
                        if acks_written > peer_settings_written {
                            fail(&mut viol, "C14", "settings-ack-answers-nothing", format!("{}: ACK #{} written but peer wrote only {} SETTINGS (t={})", e.name(), acks_written, peer_settings_written, t));
                        }
                        if let Some(ps) = pending_peer_settings.pop_front() {
                            if let Some(x) = ps.iws {
                                if acked.iws.is_some() && acked.iws != Some(x) {
                                    stats.inc(&p("iws_changed_by_peer"));
                                    if streams.values().any(|s| s.head_sent && !s.es_sent && s.rst_sent == 0) {
                                        stats.inc(&p("iws_changed_with_open_streams"));
                                    }
                                }
                                acked.iws = Some(x);
                            }
                            if let Some(x) = ps.mfs {
                                acked.mfs = Some(x);
                            }
                            if let Some(x) = ps.mcs {
                                acked.mcs = Some(x);
                            }
                            if let Some(x) = ps.push {
                                acked.push = Some(x);
                            }
                            if let Some(x) = ps.hts {
                                acked.hts = Some(x);
                            }
                        }
                    }
                    Body::Settings { ack: false, entries } => {
                        e_settings_written += 1;
                        for (id, val) in entries {
                            if *id == S_MAX_CONCURRENT_STREAMS {
                                e_advertised_mcs = Some(*val);
                            }
                        }
                    }
                    Body::Ping { ack: true, payload } => {
                        pongs_written += 1;
                        match peer_pings_written.pop_front() {
                            None => fail(&mut viol, "C14", "ping-ack-answers-nothing", format!("{}: PING ACK {:?} with no outstanding PING", e.name(), payload)),
                            Some(exp) => {
                                if exp != *payload {
                                    fail(&mut viol, "C14", "ping-ack-wrong-payload-or-order", format!("{}: PING ACK {:?} expected {:?}", e.name(), payload, exp));
                                }
                            }
                        }
                    }
                    Body::Ping { ack: false, .. } => e_pings_written += 1,
                    Body::GoAway { last, code, .. } => {
                        goaways += 1;
                        if *code != 0 {
                            goaway_error_sent = true;
                        }
                        if let Some(prev) = goaway_last {
                            if *last > prev {
                                fail(&mut viol, "C15", "goaway-last-stream-id-increased", format!("{}: GOAWAY last={} after last={}", e.name(), last, prev));
                            }
                        }
                        for (ta, sid) in &accepted_ids {
                            if *ta < t && *sid > *last && sid % 2 != e_parity {
                                fail(&mut viol, "C15", "goaway-below-accepted-stream", format!("{}: GOAWAY last={} but stream {} was returned by accept() at t={} (< t={})", e.name(), last, sid, ta, t));
                            }
                        }
                        goaway_last = Some(*last);
                        stats.inc(&p(&format!("goaway.code{}", code)));
                        if let Some((te, _)) = lib_conn_error {
                            if t > te {
                                stats.inc(&p("goaway_after_detected_conn_error"));
                                goaway_codes_after_error.push((t, *code));
                            }
                        }
                    }
                    Body::WindowUpdate { .. } => {
                        if f.sid != 0 {
                            check_not_idle(&mut viol, &mut fail, e, f, e_parity, max_e_opened, max_peer_opened, block_in_flight(ev.t, f.sid));
                            let st = streams.entry(f.sid).or_default();
                            if st.rst_sent > 0 {
                                fail(&mut viol, "C04", "frame-after-rst-stream", format!("{}: {} after RST_STREAM", e.name(), f.short()));
                            }
                        }
                    }
                    Body::Rst { code } => {
                        if !peer_touched.contains(&f.sid) {
                            check_not_idle(&mut viol, &mut fail, e, f, e_parity, max_e_opened, max_peer_opened, block_in_flight(ev.t, f.sid));
                        }
                        let st = streams.entry(f.sid).or_default();
                        st.rst_sent += 1;
                        // A further RST_STREAM sent after E read another peer frame for a stream it had already
                        // reset (or any RST_STREAM(STREAM_CLOSED)) is the library's RFC-permitted reaction to that
                        // frame; it is not a second reset "for" the user's operation and is bounded by
                        // max_local_error_reset_streams (C18).
                        let reactive = st.peer_frame_after_rst;
                        st.peer_frame_after_rst = false;
                        if st.rst_sent > 1 && (*code == 5 || reactive) {
                            stats.inc(&p("reactive_stream_closed_rst"));
                        } else if st.rst_sent > 1 {
                            fail(&mut viol, "C17", "more-than-one-rst-stream", format!("{}: second RST_STREAM on stream {} (codes {:?} then {})", e.name(), f.sid, st.rst_code, code));
                        }
                        st.rst_code = Some(*code);
                        if st.counted_open {
                            st.counted_open = false;
                            open_count -= 1;
                        }
                        accepted_active.remove(&f.sid);
                        if *code == 7 && f.sid % 2 != e_parity {
                            refused_by_e.insert(f.sid);
                            stats.inc(&p("refused_streams"));
                        }
                        stats.inc(&p(&format!("rst.code{}", if *code <= 13 { code.to_string() } else { "other".into() })));
                    }
                    Body::Data { flow_len, .. } => {
                        check_not_idle(&mut viol, &mut fail, e, f, e_parity, max_e_opened, max_peer_opened, block_in_flight(ev.t, f.sid));
                        let iws = acked.iws.unwrap_or(65_535) as i64;
                        let st = streams.entry(f.sid).or_default();
                        let l = *flow_len as i64;
                        if !st.final_head_sent {
                            fail(&mut viol, "C04", "data-before-final-headers", format!("{}: {} before the final HEADERS of the message", e.name(), f.short()));
                        }
                        if st.es_sent {
                            fail(&mut viol, "C04", "frame-after-end-stream", format!("{}: {} after END_STREAM", e.name(), f.short()));
                        }
                        if st.rst_sent > 0 {
                            fail(&mut viol, "C04", "frame-after-rst-stream", format!("{}: {} after RST_STREAM", e.name(), f.short()));
                        }
                        if l > 0 {
                            let credit = iws + st.wu_credit;
                            if st.sent_bytes + l > credit {
                                fail(&mut viol, "C02", "stream-window-overrun", format!("{}: {} at t={}: sent {} + {} > credit {} (acked IWS {} + WU {})", e.name(), f.short(), t, st.sent_bytes, l, credit, iws, st.wu_credit));
                            }
                            if conn_sent + l > conn_credit {
                                fail(&mut viol, "C02", "connection-window-overrun", format!("{}: {} at t={}: conn sent {} + {} > credit {}", e.name(), f.short(), t, conn_sent, l, conn_credit));
                            }
                            if st.sent_bytes + l == credit {
                                stats.inc(&p("data_exhausting_stream_window"));
                            }
                            if conn_sent + l == conn_credit {
                                stats.inc(&p("data_exhausting_conn_window"));
                            }
                            st.sent_bytes += l;
                            conn_sent += l;
                            stats.inc(&p("data_frames_judged"));
                        } else {
                            stats.inc(&p("empty_data_frames"));
                        }
                        st.data_sent = true;
                        if f.end_stream() {
                            st.es_sent = true;
                        }
                    }
                    Body::Headers { block, .. } => {
                        let is_own = f.sid % 2 == e_parity;
                        let opening = if e_is_client {
                            is_own && f.sid > max_e_opened
                        } else {
                            false
                        };
                        if e_is_client && !is_own {
                            fail(&mut viol, "C04", "client-headers-on-even-stream", format!("{}: {}", e.name(), f.short()));
                        }
                        if opening {
                            // ---- C04 rule 1 and C05 initiator side
                            if f.sid > 0x7fff_ffff || f.sid == 0 {
                                fail(&mut viol, "C04", "stream-id-out-of-range", format!("{}: {}", e.name(), f.short()));
                            }
                            if f.sid >= 0x7fff_fff0 {
                                ids_exhausted_frames += 1;
                            }
                            max_e_opened = f.sid;
                            if let Some(l) = acked.mcs {
                                stats.max(&p("max.open_at_opening"), (open_count + 1) as u64);
                                if open_count + 1 > l as i64 {
                                    let open_ids: Vec<u32> = streams.iter().filter(|(_, s)| s.counted_open).map(|(k, _)| *k).collect();
                                    fail(&mut viol, "C05", "open-streams-exceed-peer-limit", format!("{}: opening stream {} at t={} makes {} open > acked MAX_CONCURRENT_STREAMS {}; open={:?}", e.name(), f.sid, t, open_count + 1, l, open_ids));
                                }
                                if open_count + 1 == l as i64 {
                                    stats.inc(&p("opened_at_limit"));
                                }
                            }
                            let st = streams.entry(f.sid).or_default();
                            st.opened_by_e = true;
                            st.counted_open = true;
                            open_count += 1;
                            stats.inc(&p("streams_opened"));
                            if peer_goaway_read.is_some() {
                                stats.inc(&p("opened_after_goaway_read"));
                            }
                        } else {
                            check_not_idle(&mut viol, &mut fail, e, f, e_parity, max_e_opened, max_peer_opened, block_in_flight(ev.t, f.sid));
                        }
                        let st = streams.entry(f.sid).or_default();
                        if !e_is_client && is_own && !st.final_head_sent && st.opened_by_e && !st.counted_open && st.rst_sent == 0 && !st.rst_read_by_e {
                            // response HEADERS on a promised stream: now counts against the peer's limit
                            let status = block.status().unwrap_or(200);
                            if status >= 200 {
                                if let Some(l) = acked.mcs {
                                    if open_count + 1 > l as i64 {
                                        fail(&mut viol, "C05", "open-pushed-streams-exceed-peer-limit", format!("{}: pushed stream {} makes {} open > {}", e.name(), f.sid, open_count + 1, l));
                                    }
                                }
                                st.counted_open = true;
                                open_count += 1;
                            }
                        }
                        if st.es_sent {
                            fail(&mut viol, "C04", "frame-after-end-stream", format!("{}: {} after END_STREAM", e.name(), f.short()));
                        }
                        if st.rst_sent > 0 {
                            fail(&mut viol, "C04", "frame-after-rst-stream", format!("{}: {} after RST_STREAM", e.name(), f.short()));
                        }
                        // ---- C04 rule 7: message shape
                        let status = block.status();
                        let is_interim = !e_is_client && matches!(status, Some(s) if (100..200).contains(&s));
                        if !st.final_head_sent {
                            if is_interim {
                                if f.end_stream() {
                                    fail(&mut viol, "C04", "interim-headers-with-end-stream", format!("{}: {}", e.name(), f.short()));
                                }
                                stats.inc(&p("interim_heads"));
                            } else {
                                st.final_head_sent = true;
                            }
                            st.head_sent = true;
                        } else {
                            // trailers: must carry END_STREAM
                            if !f.end_stream() {
                                fail(&mut viol, "C04", "trailing-headers-without-end-stream", format!("{}: {}", e.name(), f.short()));
                            }
                            stats.inc(&p("trailers_sent"));
                        }
                        if f.end_stream() {
                            st.es_sent = true;
                            // a pushed stream is half-closed (remote) from the start: END_STREAM from E closes it
                            let pushed = !e_is_client && is_own;
                            if (st.es_read_by_e || pushed) && st.counted_open {
                                st.counted_open = false;
                                open_count -= 1;
                            }
                            if st.es_read_by_e {
                                accepted_active.remove(&f.sid);
                            }
                        }
                    }
                    Body::PushPromise { promised, .. } => {
                        if e_is_client {
                            fail(&mut viol, "C04", "client-sent-push-promise", format!("{}: {}", e.name(), f.short()));
                        }
                        if acked.push == Some(0) {
                            fail(&mut viol, "C14", "push-promise-after-acked-enable-push-0", format!("{}: {}", e.name(), f.short()));
                        }
                        // parent must be a peer-initiated stream the peer opened, on which E sent neither END_STREAM nor RST
                        let parent_ok_kind = f.sid % 2 != e_parity && f.sid != 0 && f.sid <= max_peer_opened;
                        let pst = streams.entry(f.sid).or_default();
                        if !parent_ok_kind {
                            fail(&mut viol, "C04", "push-promise-on-invalid-parent", format!("{}: {} parent not opened by peer", e.name(), f.short()));
                        } else if pst.es_sent || pst.rst_sent > 0 {
                            fail(&mut viol, "C04", "push-promise-on-closed-parent", format!("{}: {} parent es_sent={} rst_sent={}", e.name(), f.short(), pst.es_sent, pst.rst_sent));
                        }
                        if *promised % 2 != e_parity || *promised <= max_e_opened || *promised == 0 {
                            fail(&mut viol, "C04", "promised-id-not-increasing-or-wrong-parity", format!("{}: {} (max opened {})", e.name(), f.short(), max_e_opened));
                        }
                        max_e_opened = (*promised).max(max_e_opened);
                        let st = streams.entry(*promised).or_default();
                        st.opened_by_e = true;
                        stats.inc(&p("push_promises"));
                    }
                    _ => {}
                }
                // END_STREAM on DATA closing a stream whose other half was already closed
                if let Body::Data { .. } = &f.body {
                    if f.end_stream() {
                        let pushed = !e_is_client && f.sid % 2 == e_parity;
                        let st = streams.entry(f.sid).or_default();
                        if (st.es_read_by_e || pushed) && st.counted_open {
                            st.counted_open = false;
                            open_count -= 1;
                        }
                        if st.es_read_by_e {
                            accepted_active.remove(&f.sid);
                        }
                    }
                }
            }
            _ => {}
        }
    }

    // ---- end-of-history facts (judged by the caller together with liveness of the connection)
    stats.add(&p("settings_acks_written"), acks_written);
    stats.add(&p("peer_settings_written"), peer_settings_written);
    stats.add(&p("peer_settings_read"), peer_settings_read);
    stats.add(&p("pongs_written"), pongs_written);
    stats.add(&p("peer_pings_read"), peer_pings_read);
    stats.add(&p("peer_pings_unanswered"), peer_pings_written.len() as u64);
    stats.add(&p("e_pings_written"), e_pings_written);
    stats.add(&p("goaways"), goaways as u64);
    stats.add(&p("e_acks_read"), e_acks_read);
    stats.add(&p("ids_near_exhaustion"), ids_exhausted_frames);
    if stray_ack_from_peer {
        stats.inc(&p("stray_ack_from_peer"));
    }
    if goaway_error_sent {
        stats.inc(&p("goaway_error_sent"));
    }
    WireOut {
        violations: viol,
        stats,
        fp: fp.0,
    }
}

#[allow(clippy::too_many_arguments)]
fn check_not_idle(
    viol: &mut Vec<Violation>,
    fail: &mut impl FnMut(&mut Vec<Violation>, &'static str, &str, String),
    e: Side,
    f: &Frame,
    e_parity: u32,
    max_e_opened: u32,
    max_peer_opened: u32,
    peer_block_in_flight: bool,
) {
    if f.sid == 0 || peer_block_in_flight {
        return;
    }
    let own = f.sid % 2 == e_parity;
    let idle = if own { f.sid > max_e_opened } else { f.sid > max_peer_opened };
    if idle {
        fail(
            viol,
            "C04",
            "frame-on-idle-stream",
            format!("{}: {} but stream is idle (max opened by E {}, by peer {})", e.name(), f.short(), max_e_opened, max_peer_opened),
        );
    }
}

/// Final acknowledgement bookkeeping, valid only when E's connection was still
/// alive, unblocked and quiescent at the end of the history.
pub fn check_acks_at_quiescence(stats: &Stats, e: Side) -> Vec<Violation> {
    let p = |s: &str| format!("{}.{}", e.name(), s);
    let mut v = Vec::new();
    let a = stats.get(&p("settings_acks_written"));
    let r = stats.get(&p("peer_settings_read"));
    if a != r {
        v.push(Violation::new("C14", "settings-ack-missing-at-quiescence", format!("{}: read {} SETTINGS but wrote {} ACKs", e.name(), r, a)));
    }
    let pr = stats.get(&p("peer_pings_read"));
    let pw = stats.get(&p("pongs_written"));
    if pr != pw {
        v.push(Violation::new("C14", "ping-ack-missing-at-quiescence", format!("{}: read {} PINGs but wrote {} PING ACKs", e.name(), pr, pw)));
    }
    v
}
