//! API-boundary monitors: fidelity (C01), outstanding operations at quiescence
//! (C06 / C07), capacity notifications (C16-d), error surfacing (C17).

use super::{apis, Stats, View, Violation};
use crate::apps::spec::Scenario;
use crate::trace::{Api, Msg, Op, Phase, Res, Side};
use std::collections::BTreeMap;

fn multimap(fields: &[(String, Vec<u8>)]) -> BTreeMap<String, Vec<Vec<u8>>> {
    let mut m: BTreeMap<String, Vec<Vec<u8>>> = BTreeMap::new();
    for (n, v) in fields {
        m.entry(n.clone()).or_default().push(v.clone());
    }
    m
}

fn fields_equal(a: &[(String, Vec<u8>)], b: &[(String, Vec<u8>)]) -> bool {
    multimap(a) == multimap(b)
}

fn short_fields(f: &[(String, Vec<u8>)]) -> String {
    let mut s = String::new();
    for (n, v) in f.iter().take(12) {
        s.push_str(&format!("{}:{}B ", n, v.len()));
    }
    if f.len() > 12 {
        s.push_str(&format!("...({} fields)", f.len()));
    }
    s
}

#[derive(Default)]
struct BodyAcc {
    submitted: u64,
    submitted_eos: bool,
    trailers_submitted: Option<Vec<(String, Vec<u8>)>>,
    delivered: u64,
    corrupt: Option<String>,
    trailers_delivered: Option<Vec<(String, Vec<u8>)>>,
    trailers_polled_none: bool,
    clean_end: bool,
    clean_end_is_end_stream: Option<bool>,
    recv_error: Option<String>,
    sender_aborted: bool,
    is_end_stream_true_at: Option<u64>,
}

#[derive(Default)]
struct StreamAcc {
    req_head_sub: Option<Msg>,
    req_head_sub_ok: bool,
    req_head_del: Vec<Msg>,
    resp_head_sub: Option<Msg>,
    resp_head_sub_ok: bool,
    resp_head_del: Vec<Msg>,
    info_sub: Vec<Msg>,
    info_del: Vec<Msg>,
    info_drained: bool,
    push_req_sub: Option<Msg>,
    push_req_sub_ok: bool,
    push_req_del: Vec<Msg>,
    req_body: BodyAcc,
    resp_body: BodyAcc,
    head_eos_req: bool,
    head_eos_resp: bool,
    sid: u32,
}

pub struct ApiOut {
    pub violations: Vec<Violation>,
    pub stats: Stats,
    pub pending: Vec<String>,
}

fn body_sent(s: &mut StreamAcc, side: Side) -> &mut BodyAcc {
    match side {
        Side::Client => &mut s.req_body,
        Side::Server => &mut s.resp_body,
    }
}

fn norm_uri(u: &str) -> String {
    u.to_string()
}

pub fn check(v: &View, sc: Option<&Scenario>, quiescent: bool) -> ApiOut {
    check_with_ending(v, sc, quiescent, None)
}

/// `t_ending`: logical time at which the scenario's ending (C07 fault enumeration) was applied.
pub fn check_with_ending(v: &View, sc: Option<&Scenario>, quiescent: bool, t_ending: Option<u64>) -> ApiOut {
    let mut viol = Vec::new();
    let mut stats = Stats::default();
    let mut acc: BTreeMap<u32, StreamAcc> = BTreeMap::new();
    let mut open_ops: BTreeMap<u32, (u64, Api)> = BTreeMap::new();
    let mut conn_ended = false;
    let mut fault_fired = false;

    for ev in v.evs() {
        if let crate::trace::EvK::Fault { .. } = ev.k {
            fault_fired = true;
        }
    }

    for (ev, a) in apis(v.evs()) {
        if a.op_id != 0 {
            match a.phase {
                Phase::Call => {
                    open_ops.insert(a.op_id, (ev.t, a.clone()));
                }
                Phase::Ret => {
                    open_ops.remove(&a.op_id);
                }
            }
        }
        let s = acc.entry(a.tag).or_default();
        if a.sid != 0 && a.tag != 0 && s.sid == 0 && !matches!(a.op, Op::PushRequest) {
            s.sid = a.sid;
        }
        match (a.op, a.phase) {
            (Op::SendRequest, Phase::Call) => {
                s.req_head_sub = a.msg.as_deref().cloned();
                s.head_eos_req = a.flag;
            }
            (Op::SendRequest, Phase::Ret) => {
                s.req_head_sub_ok = matches!(a.res, Res::Ok);
                if s.req_head_sub_ok && s.head_eos_req {
                    s.req_body.submitted_eos = true;
                }
            }
            (Op::Accept, Phase::Ret) => {
                if let (Res::Ok, Some(m)) = (&a.res, &a.msg) {
                    s.req_head_del.push((**m).clone());
                }
            }
            (Op::SendResponse, Phase::Call) => {
                s.resp_head_sub = a.msg.as_deref().cloned();
                s.head_eos_resp = a.flag;
            }
            (Op::SendResponse, Phase::Ret) => {
                s.resp_head_sub_ok = matches!(a.res, Res::Ok);
                if s.resp_head_sub_ok && s.head_eos_resp {
                    s.resp_body.submitted_eos = true;
                }
            }
            (Op::Response, Phase::Ret) | (Op::PushedResponse, Phase::Ret) => {
                if let (Res::Ok, Some(m)) = (&a.res, &a.msg) {
                    s.resp_head_del.push((**m).clone());
                }
                if a.res.is_err() {
                    s.resp_body.recv_error = a.res.err().map(|e| e.display.clone());
                }
            }
            (Op::SendInformational, Phase::Call) => {}
            (Op::SendInformational, Phase::Ret) => {
                if let Res::Ok = a.res {
                    // msg is on the call record; find it through op id is not needed: the call carried it
                }
            }
            (Op::Informational, Phase::Ret) => match (&a.res, &a.msg) {
                (Res::Ok, Some(m)) => s.info_del.push((**m).clone()),
                (Res::End, _) => s.info_drained = true,
                _ => {}
            },
            (Op::PushRequest, Phase::Call) => {
                s.push_req_sub = a.msg.as_deref().cloned();
            }
            (Op::PushRequest, Phase::Ret) => {
                s.push_req_sub_ok = matches!(a.res, Res::Ok);
            }
            (Op::PushPromise, Phase::Ret) => {
                if let (Res::Ok, Some(m)) = (&a.res, &a.msg) {
                    s.push_req_del.push((**m).clone());
                }
            }
            (Op::SendData, Phase::Ret) => {
                let b = body_sent(s, a.side);
                if let Res::Ok = a.res {
                    if a.a != b.submitted {
                        viol.push(Violation::new("C01", "harness-sender-offset", format!("internal: sender offset {} != {}", a.a, b.submitted)));
                    }
                    b.submitted += a.b;
                    if a.flag {
                        b.submitted_eos = true;
                    }
                    stats.inc("send_data_ok");
                } else {
                    stats.inc("send_data_err");
                }
            }
            (Op::SendTrailers, Phase::Call) => {
                let b = body_sent(s, a.side);
                b.trailers_submitted = a.msg.as_deref().map(|m| m.fields.clone());
            }
            (Op::SendTrailers, Phase::Ret) => {
                let b = body_sent(s, a.side);
                if let Res::Ok = a.res {
                    b.submitted_eos = true;
                } else {
                    b.trailers_submitted = None;
                }
            }
            (Op::SendReset, Phase::Ret) => {
                // a reset by the sender of a body: the body is cut
                // (b == 2: reset after the complete message had been submitted - what is still queued may be cut too)
                let b = body_sent(s, a.side);
                b.sender_aborted = true;
                stats.inc("send_reset_calls");
                if a.b == 2 {
                    stats.inc("send_reset_after_complete_message");
                }
            }
            (Op::DropSend, Phase::Ret) if a.a == 1 => {
                let b = body_sent(s, a.side);
                b.sender_aborted = true;
            }
            (Op::PollData, Phase::Ret) => {
                // receiver of request body is the server, of response body the client
                let b = match a.side {
                    Side::Server => &mut s.req_body,
                    Side::Client => &mut s.resp_body,
                };
                match &a.res {
                    Res::Ok => {
                        if a.a != b.delivered {
                            viol.push(Violation::new("C01", "harness-reader-offset", format!("internal: reader offset {} != {}", a.a, b.delivered)));
                        }
                        if !a.flag && b.corrupt.is_none() {
                            b.corrupt = Some(format!("chunk of {} bytes delivered at offset {} does not match the submitted bytes", a.b, a.a));
                        }
                        b.delivered += a.b;
                        stats.inc("chunks_delivered");
                    }
                    Res::Err(e) => b.recv_error = Some(e.display.clone()),
                    _ => {}
                }
            }
            (Op::PollTrailers, Phase::Ret) => {
                let b = match a.side {
                    Side::Server => &mut s.req_body,
                    Side::Client => &mut s.resp_body,
                };
                match (&a.res, &a.msg) {
                    (Res::Ok, Some(m)) => b.trailers_delivered = Some(m.fields.clone()),
                    (Res::End, _) => b.trailers_polled_none = true,
                    (Res::Err(e), _) => b.recv_error = Some(e.display.clone()),
                    _ => {}
                }
            }
            (Op::CleanEnd, _) => {
                let b = match a.side {
                    Side::Server => &mut s.req_body,
                    Side::Client => &mut s.resp_body,
                };
                b.clean_end = true;
                b.clean_end_is_end_stream = Some(a.flag);
            }
            (Op::IsEndStream, _) => {
                let b = match a.side {
                    Side::Server => &mut s.req_body,
                    Side::Client => &mut s.resp_body,
                };
                if a.flag && b.is_end_stream_true_at.is_none() {
                    b.is_end_stream_true_at = Some(a.a);
                }
            }
            (Op::PollCapacity, Phase::Ret) => {
                if let Res::Val(0) = a.res {
                    viol.push(Violation::new("C16", "poll-capacity-returned-zero", format!("{} stream tag {} sid {}: poll_capacity -> Ready(Some(Ok(0)))", a.side.name(), a.tag, a.sid)));
                }
                if let Res::Val(_) = a.res {
                    stats.inc("capacity_notifications");
                }
            }
            (Op::Capacity, _) if !a.flag => {
                // a = capacity() right after notification, b = notified amount
                if a.a == 0 && a.b > 0 {
                    stats.inc("capacity_zero_right_after_notification");
                }
            }
            (Op::ConnDone, Phase::Ret) => {
                conn_ended = true;
                stats.inc(&format!("conn_done.{}.{}", a.side.name(), match &a.res { Res::Ok => "ok".to_string(), Res::End => "dropped".to_string(), Res::Err(e) => format!("err{}", e.reason.map(|r| r.to_string()).unwrap_or_else(|| if e.is_io { "io".into() } else { "user".into() })), _ => "?".into() }));
            }
            _ => {}
        }
    }
    // informational submitted: collect from call records whose ret was Ok
    {
        let mut calls: BTreeMap<u32, (u32, Msg)> = BTreeMap::new();
        for (_ev, a) in apis(v.evs()) {
            if a.op == Op::SendInformational {
                match a.phase {
                    Phase::Call => {
                        if let Some(m) = &a.msg {
                            calls.insert(a.op_id, (a.tag, (**m).clone()));
                        }
                    }
                    Phase::Ret => {
                        if let Res::Ok = a.res {
                            if let Some((tag, m)) = calls.remove(&a.op_id) {
                                acc.entry(tag).or_default().info_sub.push(m);
                            }
                        }
                    }
                }
            }
        }
    }

    // streams that saw an RST_STREAM in either direction were legitimately cut short
    let mut rst_sids = std::collections::BTreeSet::new();
    let mut error_goaway = false;
    // lowest last-stream-id announced per direction: streams above it are legitimately not processed
    let mut goaway_last: [Option<u32>; 2] = [None, None];
    for d in 0..2 {
        for f in v.frames(d) {
            if let crate::wire::frame::Body::GoAway { last, .. } = f.body {
                goaway_last[d] = Some(goaway_last[d].map(|x: u32| x.min(last)).unwrap_or(last));
            }
            match f.body {
                crate::wire::frame::Body::Rst { .. } => {
                    rst_sids.insert(f.sid);
                }
                crate::wire::frame::Body::GoAway { code, .. } if code != 0 => error_goaway = true,
                _ => {}
            }
        }
    }
    let coop_run = sc.map(|s| s.coop && s.faults.is_empty() && s.ending.is_none()).unwrap_or(false) && !fault_fired;

    for (idx, s) in &acc {
        if *idx == 0 {
            continue;
        }
        let spec = sc.and_then(|sc| sc.streams.iter().chain(sc.second_wave.iter()).find(|x| x.idx == *idx));
        // ---- heads
        if s.req_head_del.len() > 1 {
            viol.push(Violation::new("C01", "request-head-delivered-twice", format!("stream tag {}", idx)));
        }
        if let (Some(sub), Some(del)) = (&s.req_head_sub, s.req_head_del.first()) {
            stats.inc("request_heads_compared");
            if sub.method != del.method || sub.uri.as_deref().map(norm_uri) != del.uri.as_deref().map(norm_uri) || !fields_equal(&sub.fields, &del.fields) {
                viol.push(Violation::new(
                    "C01",
                    "request-head-mismatch",
                    format!("stream tag {}: submitted {:?} {:?} [{}] delivered {:?} {:?} [{}]", idx, sub.method, sub.uri, short_fields(&sub.fields), del.method, del.uri, short_fields(&del.fields)),
                ));
            }
        }
        if s.resp_head_del.len() > 1 {
            viol.push(Violation::new("C01", "response-head-delivered-twice", format!("stream tag {}", idx)));
        }
        if let (Some(sub), Some(del)) = (&s.resp_head_sub, s.resp_head_del.first()) {
            stats.inc("response_heads_compared");
            if sub.status != del.status || !fields_equal(&sub.fields, &del.fields) {
                viol.push(Violation::new(
                    "C01",
                    "response-head-mismatch",
                    format!("stream tag {}: submitted {:?} [{}] delivered {:?} [{}]", idx, sub.status, short_fields(&sub.fields), del.status, short_fields(&del.fields)),
                ));
            }
        } else if s.resp_head_sub.is_none() && !s.resp_head_del.is_empty() {
            viol.push(Violation::new("C01", "response-head-never-submitted", format!("stream tag {}: delivered {:?}", idx, s.resp_head_del[0].status)));
        }
        // ---- interim heads: delivered must be a prefix of submitted, equal when drained and the final head arrived
        if s.info_del.len() > s.info_sub.len() {
            viol.push(Violation::new("C01", "interim-head-duplicated-or-invented", format!("stream tag {}: {} delivered, {} submitted", idx, s.info_del.len(), s.info_sub.len())));
        }
        for (i, d) in s.info_del.iter().enumerate() {
            stats.inc("interim_heads_compared");
            if let Some(sub) = s.info_sub.get(i) {
                if sub.status != d.status || !fields_equal(&sub.fields, &d.fields) {
                    viol.push(Violation::new("C01", "interim-head-mismatch", format!("stream tag {} #{}: submitted {:?} delivered {:?}", idx, i, sub.status, d.status)));
                }
            }
        }
        if s.info_drained && !s.resp_head_del.is_empty() && s.info_del.len() != s.info_sub.len() {
            viol.push(Violation::new("C01", "interim-head-lost", format!("stream tag {}: {} submitted, {} delivered although drained before the final response", idx, s.info_sub.len(), s.info_del.len())));
        }
        // ---- pushed request
        if s.push_req_del.len() > 1 {
            viol.push(Violation::new("C01", "pushed-request-delivered-twice", format!("stream tag {}", idx)));
        }
        if let (Some(sub), Some(del)) = (&s.push_req_sub, s.push_req_del.first()) {
            stats.inc("pushed_requests_compared");
            if sub.method != del.method || sub.uri != del.uri || !fields_equal(&sub.fields, &del.fields) {
                viol.push(Violation::new("C01", "pushed-request-mismatch", format!("stream tag {}: submitted {:?} {:?} delivered {:?} {:?}", idx, sub.method, sub.uri, del.method, del.uri)));
            }
        }
        // ---- bodies
        for (name, b, head_ok) in [("request", &s.req_body, s.req_head_sub_ok), ("response", &s.resp_body, s.resp_head_sub_ok)] {
            if let Some(c) = &b.corrupt {
                viol.push(Violation::new("C01", "body-bytes-corrupted-duplicated-or-reordered", format!("stream tag {} {} body: {}", idx, name, c)));
            }
            if b.delivered > b.submitted {
                viol.push(Violation::new("C01", "more-delivered-than-submitted", format!("stream tag {} {} body: delivered {} submitted {}", idx, name, b.delivered, b.submitted)));
            }
            if let Some(td) = &b.trailers_delivered {
                stats.inc("trailers_compared");
                match &b.trailers_submitted {
                    Some(ts) => {
                        if !fields_equal(ts, td) {
                            viol.push(Violation::new("C01", "trailers-mismatch", format!("stream tag {} {}: submitted [{}] delivered [{}]", idx, name, short_fields(ts), short_fields(td))));
                        }
                    }
                    None => viol.push(Violation::new("C01", "trailers-never-submitted", format!("stream tag {} {}: delivered [{}]", idx, name, short_fields(td)))),
                }
            }
            if b.clean_end {
                stats.inc("clean_ends");
                if b.delivered != b.submitted || !b.submitted_eos {
                    viol.push(Violation::new(
                        "C01",
                        "clean-end-without-complete-message",
                        format!("stream tag {} {} body: clean end with delivered {} of submitted {} (eos submitted: {}, sender aborted: {})", idx, name, b.delivered, b.submitted, b.submitted_eos, b.sender_aborted),
                    ));
                }
                if b.trailers_polled_none && b.trailers_submitted.is_some() {
                    viol.push(Violation::new("C01", "trailers-lost", format!("stream tag {} {}: clean end without the submitted trailers", idx, name)));
                }
                if b.clean_end_is_end_stream == Some(false) {
                    // is_end_stream() is a hint; a false negative after a clean end is not a fidelity failure
                    stats.inc("is_end_stream_false_after_clean_end");
                }
            }
            if let Some(off) = b.is_end_stream_true_at {
                // is_end_stream() == true with nothing left to read means a clean end: everything must have been delivered by then
                if off != b.submitted || !b.submitted_eos {
                    viol.push(Violation::new("C01", "is-end-stream-true-before-complete", format!("stream tag {} {}: is_end_stream() true at offset {} submitted {} eos {}", idx, name, off, b.submitted, b.submitted_eos)));
                }
            }
            // ---- complete => clean end (cooperative, quiescent)
            if quiescent && coop_run && head_ok && b.submitted_eos && !b.sender_aborted {
                if let Some(sp) = spec {
                    // A request body whose response did not wait for it may legitimately be cut short:
                    // once the client has the complete response and drops its handles, h2 regards the
                    // stream as finished and the idle client closes the connection (observed, by design).
                    let demanded = name == "response" || sp.respond_when == crate::apps::spec::RespondWhen::AfterRequestRead;
                    // a stream initiated by X above the last-stream-id of a GOAWAY sent by X's peer
                    let cut_by_goaway = if s.sid % 2 == 1 { goaway_last[1].map(|l| s.sid > l).unwrap_or(false) } else { goaway_last[0].map(|l| s.sid > l).unwrap_or(false) };
                    if demanded && sp.fully_cooperative() && !b.clean_end && !rst_sids.contains(&s.sid) && !error_goaway && !cut_by_goaway && s.sid != 0 {
                        viol.push(Violation::new(
                            "C01",
                            "complete-message-without-clean-end",
                            format!("stream tag {} {} body: sender completed ({} bytes) but receiver saw no clean end (delivered {}, error {:?})", idx, name, b.submitted, b.delivered, b.recv_error),
                        ));
                    }
                }
            }
            if b.submitted > 0 {
                stats.inc("bodies_with_data");
            }
        }
    }

    // ---- C07 (d): a message completely received by the endpoint's transport before the ending is still delivered
    // (abrupt_shutdown is exempt: its documented contract is that outstanding streams are not handled,
    // the application that calls it gives up its own unread data)
    let abrupt = sc.and_then(|s| s.ending).map(|e| matches!(e.kind, crate::apps::spec::EndKind::AbruptShutdown(_))).unwrap_or(false);
    if let (Some(te), true, false) = (t_ending, quiescent, abrupt) {
        for (idx, s) in &acc {
            if *idx == 0 || s.sid == 0 {
                continue;
            }
            let spec = sc.and_then(|sc| sc.streams.iter().find(|x| x.idx == *idx));
            let spec = match spec {
                Some(s) => s,
                None => continue,
            };
            // (direction the message travels, its body accumulator, reader plan, head delivered?)
            for (d, b, plan, head_seen) in [(0usize, &s.req_body, &spec.req_read, !s.req_head_del.is_empty()), (1usize, &s.resp_body, &spec.resp_read, !s.resp_head_del.is_empty())] {
                // "had received its complete message": h2 itself had processed the END_STREAM (hook H2 snapshot
                // of the receiving endpoint showed the receive half ended) before the ending
                let recv_side = if d == 0 { Side::Server } else { Side::Client };
                let complete_before = v.evs().iter().any(|e| e.t < te && matches!(&e.k, crate::trace::EvK::SnapFact { side, what: "recv_end_stream_processed", v } if *side == recv_side && *v == s.sid as i64));
                if !complete_before || rst_sids.contains(&s.sid) {
                    continue;
                }
                stats.inc("complete_before_ending");
                // a stream h2 itself had already closed cleanly in both directions (state Closed(EndStream), record
                // kept only because frames or handles were still around) owes its reader the clean end as well
                let closed_clean_before = v.evs().iter().any(|e| e.t < te && matches!(&e.k, crate::trace::EvK::SnapFact { side, what: "closed_end_stream", v } if *side == recv_side && *v == s.sid as i64));
                if closed_clean_before {
                    stats.inc("closed_clean_before_ending");
                    if head_seen && plan.mode == crate::apps::spec::ReadMode::All && !b.clean_end && b.recv_error.is_some() {
                        viol.push(Violation::new(
                            "C07",
                            "cleanly-closed-stream-reports-connection-error-instead-of-end",
                            format!("stream tag {} sid {} {}: the stream was closed cleanly in both directions before the ending (t={}), yet its reader got an error instead of end-of-stream (delivered {} of {}, error {:?})", idx, s.sid, if d == 0 { "request" } else { "response" }, te, b.delivered, b.submitted, b.recv_error),
                        ));
                    }
                }
                // the reader must have been in a position to read: it got the head and reads to the end
                // (only the content is demanded, not the kind of terminal indication the reader gets afterwards)
                if head_seen && plan.mode == crate::apps::spec::ReadMode::All && !b.clean_end && b.delivered != b.submitted {
                    viol.push(Violation::new(
                        "C07",
                        "complete-message-lost-at-connection-end",
                        format!("stream tag {} sid {} {}: every frame through END_STREAM had been read before the ending (t={}), the application read to the end but saw no clean end (delivered {} of {}, error {:?})", idx, s.sid, if d == 0 { "request" } else { "response" }, te, b.delivered, b.submitted, b.recv_error),
                    ));
                }
            }
        }
    }

    // ---- outstanding operations at quiescence
    let mut pending = Vec::new();
    if quiescent {
        open_ops.retain(|_, (_, a)| !matches!(a.op, Op::DropSend | Op::DropRecv | Op::DropSendResponse | Op::DropResponseFuture | Op::DropSendRequest | Op::DropConn));
        // A task killed by one of the test-only drop assertions of h2's `unstable` feature (triaged as a note, see
        // C08/C19) leaves the operation it was inside open for ever: that operation did not hang, its caller died.
        for ev in v.evs() {
            if let crate::trace::EvK::Note(n) = &ev.k {
                if n.starts_with("PANIC in task") && (n.contains("self.slab.is_empty()") || n.contains("!self.has_streams()")) {
                    let side = if n.contains("task client") { Side::Client } else { Side::Server };
                    let victim = open_ops.iter().filter(|(_, (t, a))| *t <= ev.t && a.side == side).max_by_key(|(_, (t, _))| *t).map(|(id, _)| *id);
                    if let Some(id) = victim {
                        open_ops.remove(&id);
                        stats.inc("pending_op_of_task_killed_by_unstable_assertion");
                    }
                }
            }
        }
        for (_id, (t, a)) in &open_ops {
            pending.push(format!("{} {:?} tag={} sid={} (called at t={})", a.side.name(), a.op, a.tag, a.sid, t));
        }
        if !pending.is_empty() {
            let prop = if coop_run { "C06" } else { "C07" };
            let applicable = coop_run || conn_ended || fault_fired || t_ending.is_some();
            if applicable {
                let mut kinds: Vec<String> = open_ops.values().map(|(_, a)| format!("{:?}", a.op)).collect();
                kinds.sort();
                kinds.dedup();
                viol.push(Violation::new(prop, format!("operations-pending-at-quiescence:{}", kinds.join("+")), format!("{} operations never completed: {}", pending.len(), pending.join("; "))));
                // C15: "graceful shutdown drains in-flight streams and then closes the connection"
                let graceful_by: Vec<Side> = apis(v.evs()).filter(|(_, a)| a.op == Op::GracefulShutdown && a.phase == Phase::Ret).map(|(_, a)| a.side).collect();
                if coop_run && !graceful_by.is_empty() && open_ops.values().any(|(_, a)| a.op == Op::ConnDone && graceful_by.contains(&a.side)) {
                    viol.push(Violation::new("C15", "graceful-shutdown-never-completes", format!("cooperative scenario, graceful_shutdown() was called, every stream could drain, yet the connection future never completed; {} operations still waiting: {}", pending.len(), pending.join("; "))));
                }
            } else {
                stats.inc("pending_at_quiescence_not_judged");
            }
        }
    }
    // C15: in a cooperative, fault-free scenario with a graceful shutdown everything the peers exchange is legal
    // (GOAWAY(2^31-1), shutdown PING, GOAWAY(last)): neither endpoint may answer with a connection error, and every
    // stream the server had accepted runs to completion
    if coop_run && quiescent {
        let graceful = apis(v.evs()).any(|(_, a)| a.op == Op::GracefulShutdown && a.phase == Phase::Ret);
        let abrupt = apis(v.evs()).any(|(_, a)| a.op == Op::AbruptShutdown);
        if graceful && !abrupt {
            stats.inc("c15.graceful_coop_scenarios");
            let mut excused_error = false;
            for d in 0..2usize {
                // (an endpoint that has refused or reset streams ignores their late frames only for a limited
                // period - zero for refused streams - and may then answer them with a connection error: RFC 9113
                // 5.1 allows that, so only endpoints that never wrote a RST_STREAM are judged here)
                let mut wrote_rst = false;
                for fr in v.frames(d) {
                    if let crate::wire::frame::Body::Rst { .. } = &fr.body {
                        wrote_rst = true;
                    }
                    if let crate::wire::frame::Body::GoAway { last, code, .. } = &fr.body {
                        if *code != 0 && wrote_rst {
                            excused_error = true;
                        }
                        if *code != 0 && !wrote_rst {
                            viol.push(Violation::new("C15", "connection-error-during-graceful-shutdown", format!("{} wrote GOAWAY(last={}, code={}) in a cooperative scenario whose only special event is graceful_shutdown()", if d == 0 { "client" } else { "server" }, last, code)));
                        }
                    }
                }
            }
            for (idx, s) in &acc {
                if *idx == 0 || s.sid == 0 {
                    continue;
                }
                let accepted = apis(v.evs()).any(|(_, a)| a.side == Side::Server && a.op == Op::Accept && a.phase == Phase::Ret && a.sid == s.sid && matches!(a.res, Res::Ok));
                if accepted && s.sid % 2 == 1 && !excused_error {
                    stats.inc("c15.accepted_streams_judged");
                    if let Some(e) = &s.resp_body.recv_error {
                        viol.push(Violation::new("C15", "accepted-stream-failed-during-graceful-shutdown", format!("stream tag {} sid {} had been handed to the server application before the shutdown, yet its response failed at the client: {} (delivered {} of {})", idx, s.sid, e, s.resp_body.delivered, s.resp_body.submitted)));
                    }
                }
            }
        }
    }
    stats.add("streams_seen", acc.len() as u64);
    ApiOut {
        violations: viol,
        stats,
        pending,
    }
}
