//! C17 monitor: joins the wire history with the API log.
//!
//! Sending side: the first RST_STREAM an endpoint E writes for a stream carries the caller's code when the
//! application called `send_reset`, and otherwise a code the library may choose by itself - CANCEL for handles
//! dropped early, NO_ERROR only for a server that had already submitted its complete response, REFUSED_STREAM /
//! STREAM_CLOSED / PROTOCOL_ERROR-class codes for refusals and reactions (never observed otherwise in legal
//! h2 <-> h2 traffic, so anything else is reported).
//!
//! Surfacing side: once E has read a RST_STREAM(code) from its peer for a stream that nothing else had failed
//! before, every error its handles report for that stream is a reset with exactly that code and remote origin,
//! and no operation on that stream is left waiting at quiescence. The same for a GOAWAY: streams above its
//! last-stream-id fail with the GOAWAY's code and remote origin.

use super::{Stats, View, Violation};
use crate::trace::{EvK, Op, Phase, Res, Side};
use crate::wire::frame::Body;
use std::collections::BTreeMap;

#[derive(Default, Debug)]
struct St {
    /// (t, code) of the first RST_STREAM the peer sent that E's transport has read
    peer_rst: Option<(u64, u32)>,
    /// first hook-H2 snapshot in which the stream's state is "reset by the remote": from then on the library has
    /// certainly processed the frame (bytes the transport has read may sit unprocessed in the codec's buffer
    /// while the application acts first, e.g. poll_accept returns before the rest of the buffer is looked at)
    peer_rst_effective: Option<u64>,
    /// (t, code) of RST_STREAM frames E wrote
    e_rst: Vec<(u64, u32)>,
    /// (t, code) of successful send_reset calls by E's application
    user_reset: Option<(u64, u32)>,
    /// E's application submitted END_STREAM of its own message
    es_submitted: Option<u64>,
    /// something else had failed the stream before the peer's reset (connection error, E's own reset)
    other_cause_before_peer_rst: bool,
    open_ops: BTreeMap<u32, (u64, Op)>,
    e_read_es: bool,
    /// E wrote a frame carrying END_STREAM for the stream at this time
    es_written: Option<u64>,
    /// DATA / HEADERS frames of the stream written by E after the application's send_reset
    frames_after_user_reset: u32,
    /// E has written HEADERS for the stream (a stream E initiates exists for the peer only from then on)
    e_wrote_headers: bool,
    e_headers_written_t: Option<u64>,
}

pub fn check_endpoint(v: &View, e: Side, quiescent: bool, viol: &mut Vec<Violation>, stats: &mut Stats) {
    let ed = e.wdir() as u8;
    let pd = 1 - ed;
    let e_is_server = e == Side::Server;
    let mut st: BTreeMap<u32, St> = BTreeMap::new();
    // connection-level causes
    let mut conn_failed_at: Option<u64> = None; // E wrote an error GOAWAY, saw a fault, or its connection future ended with an error
    let mut peer_goaway: Option<(u64, u32, u32)> = None; // (t, last, code)
    let mut peer_goaways_read: Vec<(u64, u32)> = Vec::new(); // every GOAWAY of the peer that E has read: (t, last)
    let mut seen_rules: std::collections::BTreeSet<String> = Default::default();
    let mut last_write_t: u64 = 0;
    let mut fail = |viol: &mut Vec<Violation>, rule: String, detail: String| {
        if seen_rules.insert(rule.clone()) {
            viol.push(Violation::new("C17", rule, detail));
        }
    };
    for ev in v.evs() {
        if ev.conn != v.conn {
            continue;
        }
        match &ev.k {
            EvK::Fault { .. } | EvK::IoDropped { .. } => {
                conn_failed_at.get_or_insert(ev.t);
            }
            EvK::SnapFact { side, what: "remote_reset_processed", v: sid } if *side == e => {
                // the library's own state shows the peer's reset: from here on every handle must report it
                let sid = *sid as u32;
                let s = st.entry(sid).or_default();
                if s.peer_rst.is_some() && s.peer_rst_effective.is_none() {
                    s.peer_rst_effective = Some(ev.t);
                    s.other_cause_before_peer_rst = conn_failed_at.is_some() || !s.e_rst.is_empty() || s.user_reset.is_some() || peer_goaway.map(|(_, last, _)| sid > last && (sid % 2 == 1) != e_is_server).unwrap_or(false);
                }
            }
            EvK::W { dir, idx } if *dir == ed => {
                let f = v.frame(*dir, *idx);
                last_write_t = ev.t;
                if f.sid != 0 {
                    let s = st.entry(f.sid).or_default();
                    if f.end_stream() {
                        s.es_written.get_or_insert(ev.t);
                    }
                    if matches!(f.body, Body::Headers { .. }) {
                        s.e_wrote_headers = true;
                        s.e_headers_written_t.get_or_insert(ev.t);
                    }
                    if matches!(f.body, Body::Data { .. } | Body::Headers { .. }) && s.user_reset.map(|(tu, _)| tu < ev.t).unwrap_or(false) {
                        s.frames_after_user_reset += 1;
                    }
                }
                match &f.body {
                    Body::Rst { code } => {
                        let s = st.entry(f.sid).or_default();
                        let first = s.e_rst.is_empty();
                        s.e_rst.push((ev.t, *code));
                        if first {
                            stats.inc(&format!("{}.first_rst.code{}", e.name(), if *code > 13 { 99 } else { *code }));
                            match s.user_reset {
                                Some((tu, c)) if tu < ev.t => {
                                    stats.inc("c17.user_reset_codes_compared");
                                    // a peer reset processed before the user's call makes the call a no-op; a library
                                    // reaction (STREAM_CLOSED etc.) may then still go out
                                    let peer_first = s.peer_rst.map(|(tp, _)| tp < tu).unwrap_or(false); // (transport read is enough here: resolved in E's favour)
                                    if c != *code && !peer_first {
                                        fail(viol, "rst-code-differs-from-callers".into(), format!("{}: send_reset({}) on stream {} at t={} but the RST_STREAM written at t={} carries code {}", e.name(), c, f.sid, tu, ev.t, code));
                                    }
                                }
                                _ => {
                                    stats.inc("c17.library_reset_codes_judged");
                                    // codes the library may pick by itself
                                    let ok = match *code {
                                        8 => true,                                        // CANCEL: handles dropped early
                                        0 => e_is_server && s.es_submitted.is_some(),     // NO_ERROR: server, response already complete
                                        5 | 7 => true,                                    // STREAM_CLOSED reaction, REFUSED_STREAM
                                        1 | 3 | 6 | 9 | 11 => true,                       // stream errors raised against peer behaviour (other oracles judge whether justified)
                                        _ => false,
                                    };
                                    if !ok {
                                        fail(viol, format!("library-rst-with-unjustified-code:{}", code), format!("{}: RST_STREAM({}) on stream {} at t={} without a send_reset call; response complete: {:?}; peer reset read: {:?}", e.name(), code, f.sid, ev.t, s.es_submitted, s.peer_rst));
                                    }
                                }
                            }
                        }
                    }
                    Body::GoAway { code, .. } if *code != 0 => {
                        conn_failed_at.get_or_insert(ev.t);
                    }
                    _ => {}
                }
            }
            EvK::R { dir, idx } if *dir == pd => {
                let f = v.frame(*dir, *idx);
                match &f.body {
                    Body::Rst { code } => {
                        let s = st.entry(f.sid).or_default();
                        if s.peer_rst.is_none() {
                            s.peer_rst = Some((ev.t, *code));
                        }
                    }
                    Body::GoAway { last, code, .. } => {
                        peer_goaways_read.push((ev.t, *last));
                        if peer_goaway.is_none() {
                            peer_goaway = Some((ev.t, *last, *code));
                        }
                    }
                    _ => {}
                }
                if f.sid != 0 && f.end_stream() {
                    st.entry(f.sid).or_default().e_read_es = true;
                }
            }
            EvK::Api(a) if a.side == e => {
                if a.op == Op::ConnDone && a.phase == Phase::Ret {
                    if let Res::Err(_) = a.res {
                        conn_failed_at.get_or_insert(ev.t);
                    }
                }
                if a.sid == 0 {
                    continue;
                }
                let s = st.entry(a.sid).or_default();
                match a.phase {
                    Phase::Call => {
                        if a.op_id != 0 && !matches!(a.op, Op::DropSend | Op::DropRecv | Op::DropSendResponse | Op::DropResponseFuture | Op::DropSendRequest) {
                            s.open_ops.insert(a.op_id, (ev.t, a.op));
                        }
                    }
                    Phase::Ret => {
                        s.open_ops.remove(&a.op_id);
                        match (&a.op, &a.res) {
                            (Op::SendReset, Res::Ok) => {
                                if s.user_reset.is_none() {
                                    s.user_reset = Some((ev.t, a.a as u32));
                                }
                            }
                            (Op::SendData | Op::SendTrailers | Op::SendResponse, Res::Ok) if a.flag => {
                                s.es_submitted.get_or_insert(ev.t);
                            }
                            (_, Res::Err(info)) => {
                                // surfacing of a peer reset
                                if let (Some((tp, code)), Some(te)) = (s.peer_rst, s.peer_rst_effective) {
                                    if te < ev.t && !s.other_cause_before_peer_rst {
                                        stats.inc("c17.errors_after_peer_reset_judged");
                                        if info.is_reset && (info.reason != Some(code) || !info.is_remote) {
                                            fail(viol, "peer-reset-surfaced-altered".into(), format!("{}: peer sent RST_STREAM({}) on stream {} (read at t={}); {:?} at t={} reports reason {:?} remote={} library={} ({})", e.name(), code, a.sid, tp, a.op, ev.t, info.reason, info.is_remote, info.is_library, info.display));
                                        }
                                    }
                                }
                                // surfacing of a peer GOAWAY on streams above its last-stream-id
                                if let Some((tg, last, code)) = peer_goaway {
                                    let local = (a.sid % 2 == 1) != e_is_server;
                                    if tg < ev.t && local && a.sid > last && info.is_go_away && conn_failed_at.map(|t| t > tg).unwrap_or(true) && s.peer_rst.is_none() && s.e_rst.is_empty() {
                                        stats.inc("c17.errors_after_peer_goaway_judged");
                                        if info.reason != Some(code) || !info.is_remote {
                                            fail(viol, "peer-goaway-surfaced-altered".into(), format!("{}: peer sent GOAWAY(last={}, code={}); {:?} on stream {} reports reason {:?} remote={} ({})", e.name(), last, code, a.op, a.sid, info.reason, info.is_remote, info.display));
                                        }
                                    }
                                }
                            }
                            _ => {}
                        }
                    }
                }
            }
            _ => {}
        }
    }
    // a reset the application asked for while part of the stream was still unsent must reach the wire
    if quiescent && conn_failed_at.is_none() {
        for (sid, s) in &st {
            if let Some((tu, code)) = s.user_reset {
                let finished_before = s.es_written.map(|t| t < tu).unwrap_or(false);
                // (a peer reset read while ours was still waiting to be written supersedes it: no RST_STREAM in
                // response to RST_STREAM)
                let peer_first = s.peer_rst.is_some();
                // (a GOAWAY of the peer that excludes the stream ends it for both sides: the peer does not process it, the
                // endpoint drops what is still queued for it - also a reset that was waiting behind the stream's HEADERS
                // or for the transport when the GOAWAY was read. When exactly a queued RST_STREAM could have been written
                // is not visible from outside, so any such GOAWAY read by the endpoint excuses the missing frame.)
                let goaway_cut = (*sid % 2 == 1) != e_is_server && peer_goaways_read.iter().any(|(_, last)| *sid > *last);
                // a stream E initiates that never got onto the wire (waiting for a concurrency slot until a GOAWAY or
                // the end of the connection) has nothing to reset there
                let local = (*sid % 2 == 1) != e_is_server;
                let on_wire = !local || s.e_wrote_headers;
                if !finished_before && !peer_first && !goaway_cut && on_wire {
                    // (the connection must still have been writing after the call: an endpoint whose connection has
                    // closed in the meantime - idle client, GOAWAY + EOF - has nowhere to send the reset)
                    if last_write_t <= tu {
                        continue;
                    }
                    stats.inc("c17.user_resets_due_on_wire");
                    if s.e_rst.is_empty() {
                        fail(viol, "user-reset-never-sent".into(), format!("{}: send_reset({}) on stream {} at t={} while the stream's END_STREAM had not been written (written: {:?}); at quiescence no RST_STREAM for it is on the wire and {} of its DATA/HEADERS frames were written after the call", e.name(), code, sid, tu, s.es_written, s.frames_after_user_reset));
                    }
                }
            }
        }
    }
    // a peer reset that E has read must reach every waiting handle of the stream
    if quiescent {
        for (sid, s) in &st {
            if let Some((tp, code)) = s.peer_rst {
                let waiting: Vec<String> = s.open_ops.values().filter(|(_, op)| matches!(op, Op::PollData | Op::PollTrailers | Op::Response | Op::PushedResponse | Op::PollCapacity | Op::PollReset | Op::Informational)).map(|(t, op)| format!("{:?}@{}", op, t)).collect();
                if !waiting.is_empty() {
                    stats.inc("c17.waiting_after_peer_reset");
                    fail(viol, "peer-reset-never-surfaced".into(), format!("{}: RST_STREAM({}) for stream {} was read at t={}, yet these operations on its handles are still waiting at quiescence: {:?}", e.name(), code, sid, tp, waiting));
                }
            }
        }
    }
}
