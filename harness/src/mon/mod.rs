//! Oracles. Every oracle is a deterministic function of the recorded history
//! (trace + wire frames + snapshots); it never looks inside h2.

pub mod api;
pub mod reset;
pub mod snap;
pub mod wire;

use crate::sim::World;
use crate::trace::{Ev, EvK, Side};
use crate::wire::frame::Frame;
use std::collections::BTreeMap;

#[derive(Debug, Clone)]
pub struct Violation {
    pub prop: &'static str,
    pub rule: String,
    pub detail: String,
}

impl Violation {
    pub fn new(prop: &'static str, rule: impl Into<String>, detail: impl Into<String>) -> Violation {
        Violation {
            prop,
            rule: rule.into(),
            detail: detail.into(),
        }
    }
    /// signature used by the known-findings file
    pub fn signature(&self) -> String {
        format!("{} rule={}", self.prop, self.rule)
    }
}

#[derive(Debug, Clone, Default)]
pub struct Stats(pub BTreeMap<String, u64>);

impl Stats {
    pub fn inc(&mut self, k: &str) {
        *self.0.entry(k.to_string()).or_insert(0) += 1;
    }
    pub fn add(&mut self, k: &str, v: u64) {
        *self.0.entry(k.to_string()).or_insert(0) += v;
    }
    pub fn max(&mut self, k: &str, v: u64) {
        let e = self.0.entry(k.to_string()).or_insert(0);
        if v > *e {
            *e = v;
        }
    }
    pub fn get(&self, k: &str) -> u64 {
        self.0.get(k).copied().unwrap_or(0)
    }
    pub fn merge(&mut self, o: &Stats) {
        for (k, v) in &o.0 {
            if k.starts_with("max.") {
                self.max(k, *v);
            } else {
                self.add(k, *v);
            }
        }
    }
}

/// Read-only view of a finished (or paused) world for the monitors.
pub struct View<'a> {
    pub w: &'a World,
    pub conn: u8,
    /// only events before this index are judged (the history up to the first quiescence)
    pub limit: usize,
}

impl<'a> View<'a> {
    pub fn evs(&self) -> &'a [Ev] {
        &self.w.trace.evs[..self.limit.min(self.w.trace.evs.len())]
    }
    pub fn frame(&self, dir: u8, idx: u32) -> &'a Frame {
        &self.w.pipes[self.conn as usize].dirs[dir as usize].frames[idx as usize]
    }
    pub fn frames(&self, dir: usize) -> &'a [Frame] {
        &self.w.pipes[self.conn as usize].dirs[dir].frames
    }
    pub fn t_read(&self, dir: usize, idx: usize) -> u64 {
        self.w.pipes[self.conn as usize].dirs[dir].t_read[idx]
    }
    pub fn t_written(&self, dir: usize, idx: usize) -> u64 {
        self.w.pipes[self.conn as usize].dirs[dir].t_written[idx]
    }
}

pub fn side_of_dir(dir: u8) -> Side {
    if dir == 0 {
        Side::Client
    } else {
        Side::Server
    }
}

/// Iterate API events.
pub fn apis<'a>(evs: &'a [Ev]) -> impl Iterator<Item = (&'a Ev, &'a crate::trace::Api)> {
    evs.iter().filter_map(|e| match &e.k {
        EvK::Api(a) => Some((e, &**a)),
        _ => None,
    })
}
