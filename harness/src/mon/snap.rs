//! State monitors over hook H2 snapshots. All invariants are evaluated here
//! (the hook in h2 only copies numbers).

use super::Violation;
use crate::trace::Side;
use h2::verif::Snapshot;
use std::cell::RefCell;
use std::collections::BTreeMap;
use std::rc::Rc;

#[derive(Default)]
pub struct SnapState {
    pub side: Option<Side>,
    pub last: Option<Snapshot>,
    pub count: u64,
    pub asked: u64,
    pub force: u32,
    pub target_conn_window: i64,
    pub max_target_conn_window: i64,
    pub violations: Vec<Violation>,
    seen_rules: BTreeMap<&'static str, u32>,
    seen_dyn: BTreeMap<String, u32>,
    pub max_slab: usize,
    pub max_ids: usize,
    pub max_recv_buffer: usize,
    pub max_send_buffer: usize,
    pub max_num_send_streams: usize,
    pub max_num_recv_streams: usize,
    pub neg_send_window_seen: u64,
    pub neg_recv_window_seen: u64,
    pub distinct_states: std::collections::BTreeSet<String>,
    /// last observed values of facts logged on change
    pub send_max_stream_id: u32,
    pub recv_init_window: u32,
    pub send_init_window: u32,
    /// streams whose END_STREAM h2 has processed (logged once, for C07's "complete message received")
    pub recv_es_logged: std::collections::BTreeSet<u32>,
    pub closed_clean_logged: std::collections::BTreeSet<u32>,
    pub remote_reset_logged: std::collections::BTreeSet<u32>,
    /// C18: reference bounds derived from the configuration (flood family only)
    pub c18: Option<C18Bounds>,
    pub max_unheld: usize,
    pub max_held: usize,
    /// DATA frames the scripted peer has sent so far (no DATA event can exist without one)
    pub peer_data_frames: usize,
    /// set by the engine when the world is quiescent: the next before-poll snapshot is the state in which
    /// the endpoint went to sleep, and credit it owes the peer must not be sitting there unsent
    pub probe_quiescent: bool,
    pub probes_done: u64,
    /// the snapshot current when the script logged its "final state sampled" note (raw window family)
    pub at_note: Option<Snapshot>,
}

/// Reference bounds for C18, computed by the harness from the documented configuration knobs only.
#[derive(Debug, Clone, Default)]
pub struct C18Bounds {
    /// stream records the application holds no handle to
    pub unheld_records: usize,
    /// buffered receive events other than DATA (all streams), before the per-held-stream allowance
    pub recv_events: usize,
    /// buffered DATA events: windows / 256 + small-frame budget + empty-frame quota
    pub data_events: usize,
    /// queued send frames (all streams)
    pub send_frames: usize,
}

#[derive(Clone)]
pub struct SnapHook(pub Rc<RefCell<SnapState>>);

fn is_local(id: u32, is_server: bool) -> bool {
    // client-initiated ids are odd
    (id % 2 == 1) != is_server
}

impl SnapHook {
    pub fn new(side: Side, target_conn_window: u32) -> SnapHook {
        let mut s = SnapState::default();
        s.side = Some(side);
        s.target_conn_window = target_conn_window as i64;
        s.max_target_conn_window = (target_conn_window as i64).max(65_535);
        s.send_max_stream_id = u32::MAX;
        SnapHook(Rc::new(RefCell::new(s)))
    }

    pub fn set_target(&self, v: u32) {
        let mut st = self.0.borrow_mut();
        st.target_conn_window = v as i64;
        st.max_target_conn_window = st.max_target_conn_window.max(v as i64);
    }

    /// The world is quiescent: judge the state the endpoint sleeps in at its next poll.
    pub fn probe_quiescent(&self) {
        let mut st = self.0.borrow_mut();
        st.probe_quiescent = true;
        st.force = st.force.max(2);
    }

    pub fn force_always(&self) {
        self.0.borrow_mut().force = u32::MAX;
    }

    /// Remember the latest snapshot as the judged final state.
    pub fn mark_final(&self) {
        let mut st = self.0.borrow_mut();
        st.at_note = st.last.clone();
    }

    pub fn set_c18(&self, b: C18Bounds) {
        let mut st = self.0.borrow_mut();
        st.c18 = Some(b);
        // floods are judged at every connection poll
        st.force = u32::MAX;
    }

    pub fn before(&self, s: &Snapshot) {
        self.check(s, "before-poll");
    }

    /// Every snapshot for the first 3000 connection polls of an execution, every 8th afterwards
    /// (long executions are dominated by repetitive bulk transfer).
    pub fn want(&self) -> bool {
        let mut st = self.0.borrow_mut();
        st.asked += 1;
        if st.force > 0 {
            st.force -= 1;
            return true;
        }
        st.asked <= 6000 || st.asked % 8 < 2
    }

    /// The next connection poll must be bracketed by fresh snapshots (quiescent-point checks).
    pub fn force_next(&self) {
        self.0.borrow_mut().force = 2;
    }

    pub fn after(&self, s: &Snapshot) {
        self.check(s, "after-poll");
    }

    fn fail_dyn(st: &mut SnapState, prop: &'static str, rule: String, detail: String) {
        let n = st.seen_dyn.entry(rule.clone()).or_insert(0);
        *n += 1;
        if *n == 1 {
            let detail = format!("t={} {}", crate::sim::now(), detail);
            st.violations.push(Violation { prop, rule, detail });
        }
    }

    fn fail(st: &mut SnapState, prop: &'static str, rule: &'static str, detail: String) {
        let n = st.seen_rules.entry(rule).or_insert(0);
        *n += 1;
        if *n == 1 {
            let detail = format!("t={} {}", crate::sim::now(), detail);
            st.violations.push(Violation {
                prop,
                rule: rule.to_string(),
                detail,
            });
        }
    }

    pub fn check(&self, s: &Snapshot, at: &'static str) {
        let mut st = self.0.borrow_mut();
        let st = &mut *st;
        st.count += 1;
        let side = st.side.unwrap();
        st.max_slab = st.max_slab.max(s.slab_len);
        st.max_ids = st.max_ids.max(s.ids_len);
        st.max_recv_buffer = st.max_recv_buffer.max(s.recv.buffer_len);
        st.max_send_buffer = st.max_send_buffer.max(s.send_buffer_len);
        st.max_num_send_streams = st.max_num_send_streams.max(s.counts.num_send_streams);
        st.max_num_recv_streams = st.max_num_recv_streams.max(s.counts.num_recv_streams);
        let is_server = s.counts.is_server;

        // --- C16-c / C02: connection send-window conservation
        let sum_avail: i64 = s.streams.iter().map(|x| x.send_available as i64).sum();
        let all_nonneg = s.send.conn_window >= 0 && s.send.conn_available >= 0 && s.streams.iter().all(|x| x.send_available >= 0);
        let lhs = s.send.conn_window as i64;
        let rhs = s.send.conn_available as i64 + sum_avail;
        if all_nonneg {
            if lhs != rhs {
                Self::fail(
                    st,
                    "C16",
                    "send-capacity-conservation",
                    format!("{} {}: conn.window_size={} != conn.available={} + sum(stream.available)={} streams={:?}", side.name(), at, lhs, s.send.conn_available, sum_avail, s.streams.iter().map(|x| (x.id, x.send_available, x.state.clone())).collect::<Vec<_>>()),
                );
            }
        }
        if s.send.conn_window < 0 || s.streams.iter().any(|x| x.send_window < 0) {
            st.neg_send_window_seen += 1;
        }
        // assigned capacity can never exceed the stream's own window when that window is non-negative
        for x in &s.streams {
            if x.send_window >= 0 && x.send_available > x.send_window && !x.state.starts_with("Closed") {
                Self::fail(
                    st,
                    "C16",
                    "stream-available-exceeds-window",
                    format!("{} {}: stream {} available={} > window={} state={}", side.name(), at, x.id, x.send_available, x.send_window, x.state),
                );
            }
        }

        // --- C03: at quiescence no released credit may be waiting to be advertised
        if st.probe_quiescent && at == "before-poll" {
            st.probe_quiescent = false;
            st.probes_done += 1;
            if s.conn_error.is_none() {
                let owed = |window: i32, available: i32| -> bool {
                    // h2's own policy: advertise once the unadvertised part reaches half the advertised window
                    window >= 0 && available > window && (available - window) as i64 >= ((window / 2) as i64).max(1)
                };
                // (h2 evaluates the threshold when the application releases: DATA that arrives afterwards lowers the
                // window and with it the threshold without a new evaluation, so while the application still holds
                // unreleased data - whose release evaluates again - credit above the threshold is not yet owed)
                if s.recv.in_flight_data == 0 && owed(s.recv.conn_window, s.recv.conn_available) {
                    Self::fail(st, "C03", "released-connection-credit-unadvertised-at-quiescence", format!("{}: the endpoint is idle with connection recv window={} but available={} (released by the application, above the update threshold) and no WINDOW_UPDATE on its way", side.name(), s.recv.conn_window, s.recv.conn_available));
                }
                for x in &s.streams {
                    let recv_open = x.state.starts_with("Open") || x.state.starts_with("HalfClosedLocal");
                    if recv_open && x.is_recv && x.in_flight_recv_data == 0 && owed(x.recv_window, x.recv_available) {
                        Self::fail(st, "C03", "released-stream-credit-unadvertised-at-quiescence", format!("{}: the endpoint is idle with stream {} recv window={} but available={} (released by the application, above the update threshold), queued_for_window_update={}", side.name(), x.id, x.recv_window, x.recv_available, x.is_pending_window_update));
                    }
                }
            }
        }

        // --- C03: receive side conservation
        let tgt = st.target_conn_window;
        let got = s.recv.conn_available as i64 + s.recv.in_flight_data as i64;
        if got != tgt {
            Self::fail(
                st,
                "C03",
                "conn-recv-target-conservation",
                format!("{} {}: recv.available={} + in_flight_data={} != target={}", side.name(), at, s.recv.conn_available, s.recv.in_flight_data, tgt),
            );
        }
        let sum_in_flight: u64 = s.streams.iter().map(|x| x.in_flight_recv_data as u64).sum();
        if sum_in_flight != s.recv.in_flight_data as u64 {
            Self::fail(
                st,
                "C03",
                "conn-in-flight-equals-stream-sum",
                format!("{} {}: recv.in_flight_data={} != sum(stream.in_flight_recv_data)={} streams={:?}", side.name(), at, s.recv.in_flight_data, sum_in_flight, s.streams.iter().map(|x| (x.id, x.in_flight_recv_data, x.state.clone(), x.is_recv)).collect::<Vec<_>>()),
            );
        }
        // (a lowered target leaves the advertised window above it until the peer consumes it: by design)
        if s.recv.conn_window as i64 > st.max_target_conn_window || s.recv.conn_window as i64 > 0x7fff_ffff {
            let m = st.max_target_conn_window;
            Self::fail(st, "C03", "conn-window-exceeds-every-configured-target", format!("{} {}: recv.window={} max target ever configured={}", side.name(), at, s.recv.conn_window, m));
        }
        if s.recv.conn_window < 0 {
            st.neg_recv_window_seen += 1;
        }
        for x in &s.streams {
            let recv_open = x.state.starts_with("Open") || x.state.starts_with("HalfClosedLocal") || x.state.starts_with("ReservedRemote");
            if x.is_recv && recv_open {
                let v = x.recv_available as i64 + x.in_flight_recv_data as i64;
                if v != s.recv.init_window_sz as i64 {
                    Self::fail(
                        st,
                        "C03",
                        "stream-recv-window-conservation",
                        format!("{} {}: stream {} recv.available={} + in_flight={} != init_window={} state={}", side.name(), at, x.id, x.recv_available, x.in_flight_recv_data, s.recv.init_window_sz, x.state),
                    );
                }
            }
            if x.recv_window < 0 {
                st.neg_recv_window_seen += 1;
            }
            if x.recv_window as i64 > (s.recv.init_window_sz as i64).max(x.recv_available as i64) {
                // the window the peer knows about may never exceed what we are willing to give
                Self::fail(
                    st,
                    "C03",
                    "stream-window-exceeds-available",
                    format!("{} {}: stream {} recv.window={} > available={} init={}", side.name(), at, x.id, x.recv_window, x.recv_available, s.recv.init_window_sz),
                );
            }
        }

        // --- C05: counters agree with the counted flags
        let counted_local = s.streams.iter().filter(|x| x.is_counted && is_local(x.id, is_server)).count();
        let counted_remote = s.streams.iter().filter(|x| x.is_counted && !is_local(x.id, is_server)).count();
        if counted_local != s.counts.num_send_streams {
            Self::fail(st, "C05", "num-send-streams-vs-counted", format!("{} {}: num_send_streams={} counted local streams={}", side.name(), at, s.counts.num_send_streams, counted_local));
        }
        if counted_remote != s.counts.num_recv_streams {
            Self::fail(st, "C05", "num-recv-streams-vs-counted", format!("{} {}: num_recv_streams={} counted remote streams={} streams={:?}", side.name(), at, s.counts.num_recv_streams, counted_remote, s.streams.iter().map(|x| (x.id, x.state.clone(), x.is_counted, x.ref_count, x.is_pending_send, x.is_pending_reset_expiration)).collect::<Vec<_>>()));
        }
        if s.counts.num_recv_streams > s.counts.max_recv_streams {
            Self::fail(st, "C05", "num-recv-streams-exceeds-max", format!("{} {}: num_recv_streams={} > max={}", side.name(), at, s.counts.num_recv_streams, s.counts.max_recv_streams));
        }
        if s.counts.num_local_reset_streams > s.counts.max_local_reset_streams {
            Self::fail(st, "C18", "local-reset-streams-exceed-max", format!("{} {}: {} > {}", side.name(), at, s.counts.num_local_reset_streams, s.counts.max_local_reset_streams));
        }
        if s.counts.num_remote_reset_streams > s.counts.max_remote_reset_streams {
            Self::fail(st, "C18", "remote-reset-streams-exceed-max", format!("{} {}: {} > {}", side.name(), at, s.counts.num_remote_reset_streams, s.counts.max_remote_reset_streams));
        }

        // --- C18: state bounded by configuration (flood family sets the reference bounds)
        let unheld = s.streams.iter().filter(|x| x.ref_count == 0).count();
        let held = s.streams.len() - unheld;
        st.max_unheld = st.max_unheld.max(unheld);
        st.max_held = st.max_held.max(held);
        if let Some(b) = st.c18.clone() {
            if unheld > b.unheld_records {
                // which link keeps most of the unheld records alive (identifies the mechanism)
                let mut causes: BTreeMap<&'static str, usize> = BTreeMap::new();
                for x in s.streams.iter().filter(|x| x.ref_count == 0) {
                    let c = if x.is_pending_accept {
                        if is_server { "pending-accept" } else { "unclaimed-push-promise" }
                    } else if x.is_pending_send {
                        "pending-send-queue"
                    } else if x.is_pending_send_capacity {
                        "pending-capacity-queue"
                    } else if x.is_pending_reset_expiration {
                        "reset-memory"
                    } else if x.is_pending_open {
                        "pending-open-queue"
                    } else if x.is_pending_window_update {
                        "pending-window-update-queue"
                    } else if x.is_pending_push {
                        "pending-push"
                    } else if x.is_counted {
                        "counted-open"
                    } else {
                        "unlinked"
                    };
                    *causes.entry(c).or_insert(0) += 1;
                }
                // Links with a configured allowance of their own (streams waiting for accept(): concurrency limit +
                // max_pending_accept_reset_streams; reset memory: max_concurrent_reset_streams; counted open streams) are
                // part of the bound. When the records on the other links alone make the difference, the largest of
                // *those* names the mechanism; otherwise the largest link overall.
                let has_allowance = |c: &str| (is_server && c == "pending-accept") || c == "reset-memory" || c == "counted-open";
                let without: usize = causes.iter().filter(|(c, _)| !has_allowance(c)).map(|(_, n)| *n).sum();
                let cause = if without > 0 && unheld - without <= b.unheld_records {
                    causes.iter().filter(|(c, _)| !has_allowance(c)).max_by_key(|(_, n)| **n).map(|(c, _)| *c).unwrap_or("none")
                } else {
                    causes.iter().max_by_key(|(_, n)| **n).map(|(c, _)| *c).unwrap_or("none")
                };
                Self::fail_dyn(st, "C18", format!("stream-records-exceed-configured-bound:{}:{}", side.name(), cause), format!("{} {}: {} stream records not held by the application > bound {} (slab={}, held by app={}); kept alive by {:?}; first unheld: {:?}", side.name(), at, unheld, b.unheld_records, s.slab_len, held, causes, s.streams.iter().filter(|x| x.ref_count == 0).take(4).map(|x| format!("{} {} counted={} q(send={} cap={} open={} push={} accept={} wu={} reset_exp={}) send_q_empty={} recv_q_empty={}", x.id, x.state, x.is_counted, x.is_pending_send, x.is_pending_send_capacity, x.is_pending_open, x.is_pending_push, x.is_pending_accept, x.is_pending_window_update, x.is_pending_reset_expiration, x.pending_send_empty, x.pending_recv_empty)).collect::<Vec<_>>()));
            }
            let recv_bound = b.recv_events + 3 * held + b.data_events.min(st.peer_data_frames);
            if s.recv.buffer_len > recv_bound {
                let pdf = st.peer_data_frames;
                let unheld_with_events = s.streams.iter().filter(|x| x.ref_count == 0 && !x.pending_recv_empty).count();
                let cause = if unheld_with_events * 3 >= s.recv.buffer_len { "on-unclaimed-streams" } else { "on-streams-held-by-the-application" };
                Self::fail_dyn(st, "C18", format!("buffered-receive-events-exceed-configured-bound:{}:{}", side.name(), cause), format!("{} {}: {} buffered receive events > bound {} (= {} + 3 x {} streams held by the application + min(DATA bound {}, {} DATA frames sent by the peer)); stream records={} unheld records with events={}", side.name(), at, s.recv.buffer_len, recv_bound, b.recv_events, held, b.data_events, pdf, s.slab_len, unheld_with_events));
            }
            let send_bound = b.send_frames + 4 * held;
            if s.send_buffer_len > send_bound {
                Self::fail(st, "C18", "queued-send-frames-exceed-configured-bound", format!("{} {}: {} queued send frames > bound {} (= {} + 4 x {} streams held by the application); stream records={}", side.name(), at, s.send_buffer_len, send_bound, b.send_frames, held, s.slab_len));
            }
        }

        // --- store consistency (C19 / C18)
        if s.ids_len > s.slab_len {
            Self::fail(st, "C19", "ids-exceed-slab", format!("{} {}: ids={} slab={}", side.name(), at, s.ids_len, s.slab_len));
        }

        // --- queue flags (C06 witnesses): a stream flagged as queued implies a non-empty queue
        let any = |f: fn(&h2::verif::StreamSnap) -> bool| s.streams.iter().any(f);
        if any(|x| x.is_pending_send) && s.send.pending_send_empty {
            Self::fail(st, "C06", "flag-pending-send-but-queue-empty", format!("{} {}", side.name(), at));
        }
        if any(|x| x.is_pending_send_capacity) && s.send.pending_capacity_empty {
            Self::fail(st, "C06", "flag-pending-capacity-but-queue-empty", format!("{} {}", side.name(), at));
        }
        if any(|x| x.is_pending_open) && s.send.pending_open_empty {
            Self::fail(st, "C06", "flag-pending-open-but-queue-empty", format!("{} {}", side.name(), at));
        }
        if any(|x| x.is_pending_window_update) && s.recv.pending_window_updates_empty {
            Self::fail(st, "C06", "flag-pending-window-update-but-queue-empty", format!("{} {}", side.name(), at));
        }
        // (on a client the same flag links pushed streams into their parent's promise queue)
        if is_server && any(|x| x.is_pending_accept) && s.recv.pending_accept_empty {
            Self::fail(st, "C06", "flag-pending-accept-but-queue-empty", format!("{} {}", side.name(), at));
        }

        for x in &s.streams {
            let recv_ended = x.state.starts_with("HalfClosedRemote") || x.state.starts_with("Closed(EndStream") || x.state.starts_with("Closed(ErrorAfterEndStream");
            if recv_ended && st.recv_es_logged.insert(x.id) {
                crate::sim::log(0, crate::trace::EvK::SnapFact { side, what: "recv_end_stream_processed", v: x.id as i64 });
            }
            if x.state.starts_with("Closed(EndStream") && st.closed_clean_logged.insert(x.id) {
                crate::sim::log(0, crate::trace::EvK::SnapFact { side, what: "closed_end_stream", v: x.id as i64 });
            }
            if x.state.contains("Reset(") && x.state.contains(", Remote)") && st.remote_reset_logged.insert(x.id) {
                // h2 itself has processed the peer's RST_STREAM (C17: from now on every handle reports it)
                crate::sim::log(0, crate::trace::EvK::SnapFact { side, what: "remote_reset_processed", v: x.id as i64 });
            }
            // keep only the variant shape for state-coverage accounting
            let shape: String = x.state.chars().take_while(|c| *c != '(' && *c != '{').collect::<String>().trim().to_string();
            if st.distinct_states.len() < 64 {
                st.distinct_states.insert(shape);
            }
        }

        // facts logged on change (used by C14/C15 monitors)
        if s.send.max_stream_id != st.send_max_stream_id {
            st.send_max_stream_id = s.send.max_stream_id;
            crate::sim::log(0, crate::trace::EvK::SnapFact { side, what: "send.max_stream_id", v: s.send.max_stream_id as i64 });
        }
        if s.recv.init_window_sz != st.recv_init_window {
            st.recv_init_window = s.recv.init_window_sz;
            crate::sim::log(0, crate::trace::EvK::SnapFact { side, what: "recv.init_window_sz", v: s.recv.init_window_sz as i64 });
        }
        if s.send.init_window_sz != st.send_init_window {
            st.send_init_window = s.send.init_window_sz;
            crate::sim::log(0, crate::trace::EvK::SnapFact { side, what: "send.init_window_sz", v: s.send.init_window_sz as i64 });
        }
        st.last = Some(s.clone());
    }
}
