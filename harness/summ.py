import sys,json,collections
c=collections.Counter(); ex={}
tot=0
for l in sys.stdin:
    if l.startswith('SHARD-RESULT '):
        d=json.loads(l[len('SHARD-RESULT '):])
        tot+=d['evaluations']
        for v in d['violations']:
            c[v['signature']]+=v['count']
            ex.setdefault(v['signature'],(v['seed'],v['detail'][:300]))
print('evaluations',tot)
for k,n in c.most_common():
    print(n,k,ex[k])
