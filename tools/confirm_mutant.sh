#!/bin/bash
# confirm_mutant.sh <prop> <variant>: confirm in the scratch worktree /tmp/mut/<prop> that the seeded change
# compiles, passes the existing suite (same result as baseline), and that its demonstration passes without
# and fails with the change. Writes /tmp/mut/<prop>-out/<variant>/confirm.txt
set -u
P=$1; V=$2
WT=/tmp/mut/$P; OUT=/tmp/mut/$P-out/$V
export CARGO_NET_OFFLINE=true
cd $WT || exit 2
git checkout -q -- . ; git clean -fdq tests src 2>/dev/null
lc=$(echo "$P" | tr 'A-Z' 'a-z')
DEMO=tests/h2-tests/tests/demo_${lc}_${V}.rs
cp $OUT/demo.rs $DEMO
{
echo "== demo without patch"
cargo test --offline -j 8 -p h2-tests --test demo_${lc}_${V} 2>&1 | grep -E "^test |test result|error" | head -20
git apply $OUT/patch.diff || echo "PATCH DOES NOT APPLY"
echo "== build with patch"
cargo build --offline -j 8 2>&1 | tail -1
cargo build --offline -j 8 --features unstable,stream 2>&1 | tail -1
echo "== demo with patch"
cargo test --offline -j 8 -p h2-tests --test demo_${lc}_${V} 2>&1 | grep -E "^test |test result|error|panicked" | head -20
rm -f $DEMO
echo "== suite with patch"
cargo test --workspace --no-fail-fast --offline -j 8 > $OUT/confirm_suite.log 2>&1
grep -E "^test .* \.\.\. " $OUT/confirm_suite.log | sort > $OUT/confirm_suite.sorted
grep -E "^test .* \.\.\. " /root/suite_squash.log | sort > /tmp/mut/base_suite.sorted.$$ 
if diff -q /tmp/mut/base_suite.sorted.$$ $OUT/confirm_suite.sorted >/dev/null; then echo "SUITE SAME AS BASELINE"; else echo "SUITE DIFFERS:"; diff /tmp/mut/base_suite.sorted.$$ $OUT/confirm_suite.sorted | head -10; fi
rm -f /tmp/mut/base_suite.sorted.$$
git checkout -q -- . ; git clean -fdq tests src 2>/dev/null
} > $OUT/confirm.txt 2>&1
echo "confirm $P/$V done"
