#!/bin/bash
# run_all.sh <tier> <seed>...: every check at the given seeds; one summary line per run
cd /verif
tier=$1; shift
for s in "$@"; do
  for c in C01 C02 C03 C04 C05 C06 C07 C08 C09 C10 C11 C12 C13 C14 C15 C16 C17 C18 C19 C20; do
    out=$(VERIF_SEED=$s ./check $c --tier $tier 2>&1); rc=$?
    echo "seed=$s $c rc=$rc viol=$(echo "$out" | grep -c '^VIOLATION') inconcl=$(echo "$out" | grep -c '^INCONCLUSIVE') known=$(echo "$out" | grep -c '^KNOWN-FINDING') $(echo "$out" | grep '^property=' | sed 's/.*evaluations/evaluations/')"
    echo "$out" | grep -A2 '^VIOLATION\|^INCONCLUSIVE\|^HARNESS' | cut -c1-300 | head -8
    echo "$out" | grep '^NOTE other' | cut -c1-200 | head -6
  done
done
echo ALLDONE
