#!/usr/bin/env python3
"""Regenerates the as-built check table of DESIGN.md section 9.1 from plans.py (in place)."""
import re, sys
sys.path.insert(0, "/verif")
from plans import PLANS

ENG = {"simrun": "sim", "rawrun": "raw", "codecrun": "codec", "threadrun": "thread"}


def job(j):
    a = j["args"]
    fam = None
    if j["bin"] == "simrun":
        fam = a[a.index("--focus") + 1]
        if "--family" in a:
            fam += "/" + a[a.index("--family") + 1]
    elif j["bin"] == "threadrun":
        fam = "threads"
    else:
        fam = a[a.index("--family") + 1]
        if "--kinds" in a:
            k = a[a.index("--kinds") + 1]
            fam += "(" + (k if len(k) < 12 else "limits") + ")"
    prof = j.get("profile", "debug")
    return "%s:%s%s×%d" % (ENG[j["bin"]], fam, "" if prof == "debug" else "[%s]" % prof, j["count"])


rows = []
for p in sorted(PLANS):
    pl = PLANS[p]
    lvl = pl.get("level", "exploration")
    if pl.get("also"):
        lvl += " (+%s oracle)" % "/".join(pl["also"])
    rows.append("| %s | %s | %s | %s |" % (p, ", ".join(job(j) for j in pl["quick"]), ", ".join(job(j) for j in pl["thorough"]), lvl))
path = "/verif/DESIGN.md"
s = open(path).read()
m = re.search(r"(\| id \| quick \| thorough \| level \|\n\|---\|---\|---\|---\|\n)((?:\| C\d\d .*\n)+)", s)
assert m, "table not found"
s = s[: m.start(2)] + "\n".join(rows) + "\n" + s[m.end(2):]
open(path, "w").write(s)
print("as-built table regenerated (%d rows)" % len(rows))
