#!/bin/bash
# try_mutant.sh <patch.diff> <check-id>...: apply a seeded change to /repo's working tree, run the named quick
# checks, take the change out again. Refuses to touch a dirty tree (uncommitted work would be lost otherwise).
set -u
PATCH=$1; shift
cd /verif
if [ -n "$(git -C /repo status --porcelain)" ]; then echo "REFUSED: /repo has uncommitted changes"; exit 2; fi
git -C /repo apply "$PATCH" || { echo "patch does not apply"; exit 2; }
for c in "$@"; do
  out=$(./check $c --tier ${TIER:-quick} 2>&1); rc=$?
  echo "$c exit=$rc $(echo "$out" | grep -c '^VIOLATION') violation lines"
  echo "$out" | grep -A2 '^VIOLATION' | cut -c1-400 | head -12
  echo "$out" | grep '^INCONCLUSIVE' | head -2
done
git -C /repo apply -R "$PATCH"
git -C /repo status --short | head -3
