#!/usr/bin/env python3
"""keep_mutant.py <PROP> <variant> <caught_by_quick: comma list or -> <note>
Copies a confirmed seeded change from /tmp/mut/<PROP>-out/<variant>/ to /verif/seeded/<PROP>-<variant>/ ."""
import json, os, shutil, sys
prop, var, caught, note = sys.argv[1], sys.argv[2], sys.argv[3], sys.argv[4] if len(sys.argv) > 4 else ""
src = "/tmp/mut/%s-out/%s" % (prop, var)
dst = "/verif/seeded/%s-%s" % (prop, var)
os.makedirs(dst, exist_ok=True)
conf = open(os.path.join(src, "confirm.txt")).read()
ok = "SUITE SAME AS BASELINE" in conf and "FAILED" in conf.split("== demo with patch")[1].split("== suite")[0] and "test result: ok" in conf.split("== demo without patch")[1].split("== build")[0] and "PATCH DOES NOT APPLY" not in conf
if not ok:
    print("NOT CONFIRMED:\n" + conf)
    sys.exit(1)
for f in ("patch.diff", "demo.rs", "demo.md", "confirm.txt"):
    shutil.copy(os.path.join(src, f), os.path.join(dst, f))
meta = json.load(open(os.path.join(src, "meta.json")))
meta["id"] = "%s-%s" % (prop, var)
meta["origin"] = "sub-agent given only the property text and a scratch worktree"
meta["confirmed"] = {"compiles": True, "existing_suite": "same per-test results as the unmodified tree", "demonstration": "passes without the change, fails with it (confirm.txt)"}
meta["caught_by_quick_checks"] = [c for c in caught.split(",") if c and c != "-"]
if note:
    meta["note"] = note
json.dump(meta, open(os.path.join(dst, "meta.json"), "w"), indent=1)
print("kept", dst, meta["caught_by_quick_checks"])
