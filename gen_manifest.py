#!/usr/bin/env python3
"""Regenerates MANIFEST.json from plans.py (kept as a script so the two never drift)."""
import json, subprocess, sys
sys.path.insert(0, '.')
from plans import PLANS
NOT_APPLICABLE = json.load(open('not_applicable.json'))
hook_commits = ["c4c3d9e", "bdedb87", "abc7c64"]
checks = []
DESIGN = {"C01": "3/C01", "C02": "3/C02", "C03": "3/C03", "C04": "3/C04", "C05": "3/C05", "C06": "3/C06", "C07": "3/C07", "C08": "3/C08", "C09": "3/C09", "C10": "3/C10", "C11": "3/C11", "C12": "3/C12", "C13": "3/C13", "C14": "3/C14", "C15": "3/C15", "C16": "3/C16", "C17": "3/C17", "C18": "3/C18", "C19": "3/C19", "C20": "3/C20"}
for pid in sorted(PLANS):
    p = PLANS[pid]
    checks.append({
        "property_id": pid,
        "quick_cmd": "./check %s --tier quick" % pid,
        "thorough_cmd": "./check %s --tier thorough" % pid,
        "evidence_file": "/verif/evidence/%s.json" % pid,
        "replay_cmd_template": "./check %s --replay {path}" % pid,
        "engine": ", ".join(sorted(set(j["bin"] for j in p["quick"]))),
        "level_claimed": {
            "category": p.get("level", "exploration"),
            "text": p.get("level_text", "Held on the executions produced: " + p["rule"]),
            "design_ref": "DESIGN.md section " + DESIGN[pid],
        },
        "level_note": "; ".join(p.get("assumptions", [])),
        "technique": p.get("technique", "runtime monitoring: generated workloads on the real code under a deterministic simulator, judged by wire/API/state-snapshot oracles"),
    })
m = {
    "version": 1,
    "setup_cmd": "./check --setup",
    "hooks": {
        "guard": "verif-hooks",
        "enable": "cargo feature `verif-hooks` of the h2 crate (harness/Cargo.toml: h2 = { path = \"/repo\", features = [\"unstable\", \"stream\", \"verif-hooks\"] }); off by default, no workspace member enables it",
        "baseline_off_cmd": "cd /repo && cargo test --workspace --no-fail-fast --offline",
        "source_commits": hook_commits,
        "add_only": True,
    },
    "engines": [
        {"name": "sim", "path": "harness/src/engine/sim.rs", "serves_properties": sorted(p for p in PLANS if any(j["bin"] == "simrun" for j in PLANS[p]["quick"])), "kind_free_text": "deterministic single-threaded world: strict executor, in-memory duplex pipe with PRNG chunking/back-pressure/faults, h2 client <-> h2 server driven by generated application programs; independent wire parser tees every byte"},
        {"name": "raw", "path": "harness/src/engine/raw.rs", "serves_properties": sorted(p for p in PLANS if any(j["bin"] == "rawrun" for j in PLANS[p]["quick"])), "kind_free_text": "one h2 endpoint (either role) with generated application programs against a scripted raw peer that writes bytes from the harness's own serializer/HPACK encoder and keeps a legal shadow state driven only by what the endpoint actually wrote; families: catalogue, headers, fuzz"},
        {"name": "codec", "path": "harness/src/engine/codec.rs", "serves_properties": sorted(p for p in PLANS if any(j["bin"] == "codecrun" for j in PLANS[p]["quick"])), "kind_free_text": "component-level differential engine: h2::Codec and h2::verif::{Decoder,huffman} under scripted transports against the independent frame parser/serializer, the reference HPACK implementation and libnghttp2"},
        {"name": "thread", "path": "harness/src/engine/threaded.rs", "serves_properties": sorted(p for p in PLANS if any(j["bin"] == "threadrun" for j in PLANS[p]["quick"])), "kind_free_text": "real OS threads on the real library over a thread-safe in-memory pipe that records the byte history without adding synchronisation; wire history rebuilt after joining and judged by the simulator's wire oracles; snapshot invariants on the connection threads; plain, ThreadSanitizer and Miri layers; deadlock watchdog"},
    ],
    "checks": checks,
    "not_applicable": NOT_APPLICABLE,
    "notes": "All checks honour VERIF_SEED / VERIF_TIER, rebuild the harness against /repo's working tree (cargo path dependency) and rewrite their evidence file. Exit 2 + INCONCLUSIVE line = the check itself could not decide (never a verdict). Known findings: KNOWN_FINDINGS.txt.",
}
json.dump(m, open('MANIFEST.json', 'w'), indent=1)
print("wrote MANIFEST.json with", len(checks), "checks,", len(NOT_APPLICABLE), "not_applicable")
