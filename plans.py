"""Per-property exploration plans (which engine runs which workload family, how much)."""


def sim(focus, count, coop="mix", profile="debug", extra=None, label=None, timeout=1500):
    return {"bin": "simrun", "args": ["--focus", focus, "--coop", coop] + (extra or []), "count": count, "profile": profile, "label": label or ("sim-" + focus), "timeout": timeout}


COMMON_ASSUME = [
    "only executions that were generated are judged (seeded PRNG over programs, configurations, chunkings, schedules)",
    "the independent frame parser / reference HPACK decoder written for the harness are correct (cross-checked against RFC 7541 Appendix C and libnghttp2 in selftest)",
    "wire-oracle knowledge ambiguity is resolved in the endpoint's favour (credit counts from the instant its last byte was read, obligations from the endpoint's own SETTINGS ACK)",
]

PLANS = {
    "C01": {
        "rule": "sim engine: generated h2-client<->h2-server scenarios (1-10 streams, bodies 0-200 kB position-coded, header lists up to 40 kB, 1xx, pushes, trailers; PRNG-drawn windows/frame sizes/buffers, pipe chunking from 1 byte to whole buffers with write/flush back-pressure, 6 scheduler policies, optional re-entrant injection). An execution is non-trivial iff h2 split a body or header block (more DATA frames than send_data calls, or CONTINUATION used) or a transport write ended inside a frame, and at least one body chunk was delivered; distinct = distinct behaviour fingerprint (hash of both endpoints' emitted frame-type/flag/stream-class sequences and the scheduler decision sequence).",
        "quick": [sim("fidelity", 10000), sim("general", 6000)],
        "thorough": [sim("fidelity", 240000), sim("general", 120000), sim("fidelity", 40000, profile="release", label="sim-fidelity-release")],
        "min_nontrivial": {"quick": 500, "thorough": 5000},
        "require_stats": {"quick": {"chunks_delivered": 1000, "trailers_compared": 50, "interim_heads_compared": 20, "pushed_requests_compared": 20, "clean_ends": 1000}, "thorough": {"chunks_delivered": 10000}},
        "assumptions": COMMON_ASSUME + ["cross-name iteration order of http::HeaderMap is not judged (per-name value sequences are)", "a request body whose response did not wait for it may be cut short by the idle client closing the connection; 'complete => clean end' is demanded for responses and for requests the server reads before answering"],
    },
    "C02": {
        "rule": "sim engine with small/odd windows and SETTINGS_INITIAL_WINDOW_SIZE changes mid-connection; wire accountant judges every DATA frame of both endpoints. Non-trivial iff at least one DATA frame exactly exhausted a stream or connection window (the window, not the application, limited the send); distinct by behaviour fingerprint.",
        "quick": [sim("sendwindow", 8000), sim("capacity", 4000), sim("settings", 4000)],
        "thorough": [sim("sendwindow", 200000), sim("capacity", 100000), sim("settings", 100000), sim("sendwindow", 30000, profile="release", label="sim-sendwindow-release")],
        "min_nontrivial": {"quick": 500, "thorough": 5000},
        "require_stats": {"quick": {"client.data_frames_judged": 5000, "server.data_frames_judged": 5000}, "thorough": {}},
        "assumptions": COMMON_ASSUME,
    },
    "C03": {
        "rule": "sim engine with receive-window reconfiguration (set_target_window_size / set_initial_window_size up and down), resets, early RecvStream drops, unpolled pushes; hook-H2 snapshot invariants after every connection poll (available + in_flight == target; conn in_flight == sum of stream in_flight; per-stream available + in_flight == initial window) plus the quiescence oracle for stalls. Non-trivial iff data was delivered and a stream was non-cooperative (reset/drop/stop) or a local window was reconfigured; distinct by behaviour fingerprint.",
        "quick": [sim("recvwindow", 10000), sim("resets", 3000), sim("settings", 3000)],
        "thorough": [sim("recvwindow", 240000), sim("resets", 80000), sim("settings", 80000)],
        "min_nontrivial": {"quick": 500, "thorough": 5000},
        "require_stats": {"quick": {"snapshots": 100000}, "thorough": {}},
        "assumptions": COMMON_ASSUME + ["snapshot invariants are evaluated on the copy taken by hook H2 under h2's own lock"],
    },
    "C04": {
        "rule": "sim engine dominated by resets/drops at random instants, low concurrency limits, pushes on several parents, near-exhausted stream ids; RFC 9113 5.1/6 grammar automaton over each endpoint's own output. Non-trivial iff a CONTINUATION was used, a reset/abort raced with queued frames, ids neared exhaustion or a stream was non-cooperative; distinct by behaviour fingerprint.",
        "quick": [sim("lifecycle", 10000), sim("resets", 3000), sim("concurrency", 3000)],
        "thorough": [sim("lifecycle", 240000), sim("resets", 80000), sim("concurrency", 80000)],
        "min_nontrivial": {"quick": 500, "thorough": 5000},
        "require_stats": {"quick": {"client.ids_near_exhaustion": 5, "server.push_promises": 100, "send_reset_calls": 200}, "thorough": {}},
        "assumptions": COMMON_ASSUME,
    },
    "C05": {
        "rule": "sim engine with MAX_CONCURRENT_STREAMS in {1,2,..5} on either side, several SendRequest clones racing for slots, streams closing by every path; wire oracle (initiator side) + accept()-time oracle (acceptor side) + snapshot counters. Non-trivial iff a limit was reached (request opened exactly at the limit, accept at the limit, or a stream refused); distinct by behaviour fingerprint.",
        "quick": [sim("concurrency", 12000), sim("lifecycle", 4000)],
        "thorough": [sim("concurrency", 300000), sim("lifecycle", 100000)],
        "min_nontrivial": {"quick": 500, "thorough": 5000},
        "require_stats": {"quick": {"client.opened_at_limit": 200, "server.accept_at_limit": 200}, "thorough": {}},
        "assumptions": COMMON_ASSUME + ["acceptor side: a stream counts as finished for the application from the moment it submitted END_STREAM/reset through the API (h2's own definition), not when the frame reached the wire"],
    },
    "C06": {
        "rule": "sim engine, cooperative scenarios only, strict executor (a task is polled only after its waker fired); verdict = no operation outstanding at quiescence of the closed world. Non-trivial iff at least one application task was parked on an h2 waker and later woken by a connection task; distinct by behaviour fingerprint (includes the schedule).",
        "quick": [sim("progress", 8000, coop="yes"), sim("general", 4000, coop="yes"), sim("settings", 2000, coop="yes"), sim("concurrency", 2000, coop="yes")],
        "thorough": [sim("progress", 200000, coop="yes"), sim("general", 100000, coop="yes"), sim("settings", 50000, coop="yes"), sim("concurrency", 50000, coop="yes"), sim("recvwindow", 50000, coop="yes")],
        "min_nontrivial": {"quick": 500, "thorough": 5000},
        "require_stats": {"quick": {"app_woken_by_conn": 10000}, "thorough": {}},
        "assumptions": COMMON_ASSUME + ["bounded-progress restatement: inside the closed simulated world a pending operation at quiescence is a non-terminating execution; unbounded fair schedules outside the generated ones are not covered", "cooperative = every reader reads to the end and releases, aborts are explicit resets, no window/limit permanently zero"],
    },
    "C12": {
        "rule": "wire rule in sim runs: every frame either endpoint emits parses with the independent RFC 9113 parser and its payload is <= the peer's MAX_FRAME_SIZE acknowledged by the emitter. Non-trivial iff a transport write ended inside a frame or a frame had exactly the maximum size; distinct by behaviour fingerprint.",
        "quick": [sim("fidelity", 8000), sim("settings", 4000)],
        "thorough": [sim("fidelity", 200000), sim("settings", 100000)],
        "min_nontrivial": {"quick": 500, "thorough": 5000},
        "assumptions": COMMON_ASSUME,
    },
    "C14": {
        "rule": "sim engine with user pings and set_initial_window_size from either application while traffic flows: acknowledgement bookkeeping (never more ACKs than SETTINGS written by the peer; equal at quiescence; PING ACK payload sequence is a prefix of the PINGs written), settings applied at the ACK position (C02/C05/C12 oracles are parameterised by the ACK). Non-trivial iff a window setting changed with streams open or a user ping was exchanged; distinct by behaviour fingerprint.",
        "quick": [sim("settings", 12000), sim("general", 4000)],
        "thorough": [sim("settings", 300000), sim("general", 100000)],
        "min_nontrivial": {"quick": 300, "thorough": 3000},
        "assumptions": COMMON_ASSUME,
    },
    "C15": {
        "rule": "sim engine with server graceful_shutdown / abrupt_shutdown at PRNG-chosen instants: GOAWAY last-stream-id monotone and >= every stream already returned by accept(); no accept() above a sent GOAWAY; in-flight streams at or below it complete (C01 ledger). Non-trivial iff a GOAWAY was sent while more than one stream had been opened; distinct by behaviour fingerprint.",
        "quick": [sim("shutdown", 16000)],
        "thorough": [sim("shutdown", 400000)],
        "min_nontrivial": {"quick": 300, "thorough": 3000},
        "assumptions": COMMON_ASSUME,
    },
    "C16": {
        "rule": "sim engine with 2-10 streams competing for connection capacity under reserve_capacity churn (raise/lower), max_send_buffer_size in {1..500k}; snapshot conservation (conn.window == conn.available + sum stream.available), no poll_capacity -> Ok(0), waits resolved at quiescence. Non-trivial iff a capacity notification was delivered with more than one stream in the scenario; distinct by behaviour fingerprint.",
        "quick": [sim("capacity", 12000), sim("sendwindow", 4000)],
        "thorough": [sim("capacity", 300000), sim("sendwindow", 100000)],
        "min_nontrivial": {"quick": 500, "thorough": 5000},
        "require_stats": {"quick": {"capacity_notifications": 5000}, "thorough": {}},
        "assumptions": COMMON_ASSUME,
    },
    "C17": {
        "rule": "sim engine with send_reset / handle drops at every point of a stream's life (queued behind the concurrency limit, blocked on window, partly written, half-closed, closed): at most one non-reactive RST_STREAM per stream on the wire, nothing of the stream after it, other streams keep fidelity. Non-trivial iff a reset/abort/cancel was part of the program; distinct by behaviour fingerprint.",
        "quick": [sim("resets", 16000)],
        "thorough": [sim("resets", 400000)],
        "min_nontrivial": {"quick": 500, "thorough": 5000},
        "require_stats": {"quick": {"send_reset_calls": 1000}, "thorough": {}},
        "assumptions": COMMON_ASSUME + ["a further RST_STREAM(STREAM_CLOSED) sent in reaction to peer frames arriving for an already reset stream is RFC-permitted and not counted as a second reset"],
    },
    "C19": {
        "rule": "sim engine: a first wave of streams ending by every path with handle drops at random instants, quiescence with the connection alive (hook-H2 snapshot must show nothing retained outside the reset memory, counters and windows idle), a second wave on the recycled slots, then idle close (GOAWAY(NO_ERROR), transport shutdown, Ok(())). Non-trivial iff a stream ended by a non-clean path or the forgetting check ran; distinct by behaviour fingerprint.",
        "quick": [sim("forget", 14000), sim("general", 2000)],
        "thorough": [sim("forget", 350000), sim("general", 50000)],
        "min_nontrivial": {"quick": 500, "thorough": 5000},
        "require_stats": {"quick": {"forget_checks": 2000, "idle_close_checked": 2000, "second_wave_completed": 500}, "thorough": {}},
        "assumptions": COMMON_ASSUME,
    },
}
