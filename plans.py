"""Per-property exploration plans (which engine runs which workload family, how much)."""


def sim(focus, count, coop="mix", profile="debug", extra=None, label=None, timeout=1500):
    return {"bin": "simrun", "args": ["--focus", focus, "--coop", coop] + (extra or []), "count": count, "profile": profile, "label": label or ("sim-" + focus), "timeout": timeout}


def raw(family, count, profile="debug", extra=None, label=None, timeout=1500):
    return {"bin": "rawrun", "args": ["--family", family] + (extra or []), "count": count, "profile": profile, "label": label or ("raw-" + family), "timeout": timeout}


def codec(family, count, profile="debug", extra=None, label=None, timeout=1500, shards=None):
    j = {"bin": "codecrun", "args": ["--family", family] + (extra or []), "count": count, "profile": profile, "label": label or ("codec-" + family), "timeout": timeout}
    if shards:
        j["shards"] = shards
    return j


def thread(count, profile="debug", extra=None, label=None, timeout=1500, shards=None, miriflags=None):
    j = {"bin": "threadrun", "args": (extra or []), "count": count, "profile": profile, "label": label or ("thread-" + profile), "timeout": timeout}
    if shards:
        j["shards"] = shards
    if miriflags:
        j["miriflags"] = miriflags
    return j


COMMON_ASSUME = [
    "only executions that were generated are judged (seeded PRNG over programs, configurations, chunkings, schedules)",
    "the independent frame parser / reference HPACK decoder written for the harness are correct (cross-checked against RFC 7541 Appendix C and libnghttp2 in selftest)",
    "wire-oracle knowledge ambiguity is resolved in the endpoint's favour (credit counts from the instant its last byte was read, obligations from the endpoint's own SETTINGS ACK)",
]

PLANS = {
    "C01": {
        "rule": "sim engine: generated h2-client<->h2-server scenarios (1-10 streams, bodies 0-200 kB position-coded, header lists up to 40 kB, 1xx, pushes, trailers; PRNG-drawn windows/frame sizes/buffers, pipe chunking from 1 byte to whole buffers with write/flush back-pressure, 6 scheduler policies, optional re-entrant injection). An execution is non-trivial iff h2 split a body or header block (more DATA frames than send_data calls, or CONTINUATION used) or a transport write ended inside a frame, and at least one body chunk was delivered; distinct = distinct behaviour fingerprint (hash of both endpoints' emitted frame-type/flag/stream-class sequences and the scheduler decision sequence).",
        "quick": [sim("fidelity", 10000), sim("general", 6000)],
        "thorough": [sim("fidelity", 240000), sim("general", 120000), sim("fidelity", 40000, profile="release", label="sim-fidelity-release")],
        "min_nontrivial": {"quick": 500, "thorough": 5000},
        "require_stats": {"quick": {"chunks_delivered": 1000, "trailers_compared": 50, "interim_heads_compared": 20, "pushed_requests_compared": 20, "clean_ends": 1000}, "thorough": {"chunks_delivered": 10000}},
        "assumptions": COMMON_ASSUME + ["cross-name iteration order of http::HeaderMap is not judged (per-name value sequences are)", "a request body whose response did not wait for it may be cut short by the idle client closing the connection; 'complete => clean end' is demanded for responses and for requests the server reads before answering"],
    },
    "C02": {
        "rule": "sim engine with small/odd windows and SETTINGS_INITIAL_WINDOW_SIZE changes mid-connection; wire accountant judges every DATA frame of both endpoints. Non-trivial iff at least one DATA frame exactly exhausted a stream or connection window (the window, not the application, limited the send); distinct by behaviour fingerprint.",
        "quick": [sim("sendwindow", 8000), sim("capacity", 4000), sim("settings", 4000)],
        "thorough": [sim("sendwindow", 200000), sim("capacity", 100000), sim("settings", 100000), sim("sendwindow", 30000, profile="release", label="sim-sendwindow-release")],
        "min_nontrivial": {"quick": 500, "thorough": 5000},
        "require_stats": {"quick": {"client.data_frames_judged": 5000, "server.data_frames_judged": 5000}, "thorough": {}},
        "assumptions": COMMON_ASSUME,
    },
    "C03": {
        "rule": "sim engine with receive-window reconfiguration (set_target_window_size / set_initial_window_size up and down), resets, early RecvStream drops, unpolled pushes; hook-H2 snapshot invariants after every connection poll (available + in_flight == target; conn in_flight == sum of stream in_flight; per-stream available + in_flight == initial window) plus, whenever the world is quiescent, a probe of the state each endpoint sleeps in (no released credit above h2's update threshold may be sitting unadvertised). raw engine, window family: a scripted client sends legal DATA with random padding (0..255) to an h2 server whose application consumes (releasing at once, lagging, or only by dropping), holds, partially reads, drops or resets the bodies, to streams refused beyond the concurrency limit and to streams the peer resets itself; same snapshot invariants around every connection poll, and at the end (all handlers finished, connection alive, one PING round trip) nothing may remain in flight, the window the endpoint believes it advertised must equal initial + WINDOW_UPDATEs - flow-controlled bytes computed from the wire, and that window must be back within the update threshold of the configured size. Non-trivial iff data was delivered and a stream was non-cooperative (reset/drop/stop) or a local window was reconfigured (sim), or the final check ran (raw); distinct by behaviour fingerprint.",
        "quick": [sim("recvwindow", 10000), sim("resets", 3000), sim("settings", 3000), raw("window", 1600)],
        "thorough": [sim("recvwindow", 240000), sim("resets", 80000), sim("settings", 80000), raw("window", 60000)],
        "min_nontrivial": {"quick": 500, "thorough": 5000},
        "require_stats": {"quick": {"snapshots": 100000, "quiescence_probes": 300, "window.final_checks": 1000, "window.padded_frames": 5000, "window.refused_streams_seen": 30}, "thorough": {}},
        "assumptions": COMMON_ASSUME + ["snapshot invariants are evaluated on the copy taken by hook H2 under h2's own lock", "h2 advertises released credit only once it reaches half of the advertised window (by design): 'returns to its configured size' is judged up to that threshold on the wire and exactly on the endpoint's own books (available + in flight == target, in flight == 0 when nothing is held)"],
    },
    "C04": {
        "rule": "sim engine dominated by resets/drops at random instants, low concurrency limits, pushes on several parents, near-exhausted stream ids; RFC 9113 5.1/6 grammar automaton over each endpoint's own output. Non-trivial iff a CONTINUATION was used, a reset/abort raced with queued frames, ids neared exhaustion or a stream was non-cooperative; distinct by behaviour fingerprint.",
        "quick": [sim("lifecycle", 20000), sim("resets", 3000), sim("concurrency", 3000)],
        "thorough": [sim("lifecycle", 240000), sim("resets", 80000), sim("concurrency", 80000)],
        "min_nontrivial": {"quick": 500, "thorough": 5000},
        "require_stats": {"quick": {"client.ids_near_exhaustion": 5, "server.push_promises": 100, "send_reset_calls": 200}, "thorough": {}},
        "assumptions": COMMON_ASSUME,
    },
    "C05": {
        "rule": "sim engine with MAX_CONCURRENT_STREAMS in {1,2,..5} on either side, several SendRequest clones racing for slots, streams closing by every path; wire oracle (initiator side) + accept()-time oracle (acceptor side: accept() on a server, pushed responses handed out on a client) + snapshot counters; raw engine, flood kinds that cross the limit from outside (a scripted client opening streams beyond the server's advertised limit; a scripted server opening more pushed streams than the client advertised and keeping them open): the excess must be answered with REFUSED_STREAM and never reach the application. Non-trivial iff a limit was reached (request opened exactly at the limit, accept at the limit, or a stream refused); distinct by behaviour fingerprint.",
        "quick": [sim("concurrency", 12000), sim("lifecycle", 4000), raw("flood", 640, extra=["--kinds", "client:push-open,server:open-only,server:open-es,server:open-rst"], label="raw-flood-limits")],
        "thorough": [sim("concurrency", 300000), sim("lifecycle", 100000), raw("flood", 30000, extra=["--kinds", "client:push-open,server:open-only,server:open-es,server:open-rst"], label="raw-flood-limits")],
        "min_nontrivial": {"quick": 500, "thorough": 5000},
        "require_stats": {"quick": {"client.opened_at_limit": 200, "server.accept_at_limit": 200, "client.pushed_responses_surfaced": 300, "client.accept_at_limit": 50, "client.refused_streams": 1000, "server.refused_streams": 1000}, "thorough": {}},
        "assumptions": COMMON_ASSUME + ["acceptor side: a stream counts as finished for the application from the moment it submitted END_STREAM/reset through the API (h2's own definition), not when the frame reached the wire"],
    },
    "C06": {
        "rule": "sim engine, cooperative scenarios only, strict executor (a task is polled only after its waker fired); verdict = no operation outstanding at quiescence of the closed world. Non-trivial iff at least one application task was parked on an h2 waker and later woken by a connection task; distinct by behaviour fingerprint (includes the schedule).",
        "quick": [sim("progress", 8000, coop="yes"), sim("general", 4000, coop="yes"), sim("settings", 2000, coop="yes"), sim("concurrency", 2000, coop="yes")],
        "thorough": [sim("progress", 200000, coop="yes"), sim("general", 100000, coop="yes"), sim("settings", 50000, coop="yes"), sim("concurrency", 50000, coop="yes"), sim("recvwindow", 50000, coop="yes")],
        "min_nontrivial": {"quick": 500, "thorough": 5000},
        "require_stats": {"quick": {"app_woken_by_conn": 10000}, "thorough": {}},
        "assumptions": COMMON_ASSUME + ["bounded-progress restatement: inside the closed simulated world a pending operation at quiescence is a non-terminating execution; unbounded fair schedules outside the generated ones are not covered", "cooperative = every reader reads to the end and releases, aborts are explicit resets, no window/limit permanently zero"],
    },
    "C12": {
        "rule": "codec engine over h2::Codec with a scripted transport: (ser) generated frames of every type the endpoint can emit (DATA 0..2^24-1 bytes, HEADERS/PUSH_PROMISE with blocks up to 200 kB => CONTINUATION, SETTINGS, PING, GOAWAY with up to 16 kB debug data, WINDOW_UPDATE, RST_STREAM; max_send_frame_size changed between frames) flushed through a transport that accepts k bytes per call for scripted k (1, 1-then-Pending, ..., whole), vectored or not, lazy flush: the byte stream must equal the accept-everything run, the independent parser must parse it back to the submitted frames, every payload <= max_send_frame_size, oversize DATA refused with PayloadTooBig; (parse) well-formed frames of all ten types with every flag combination, padding 0..255, priority fields, unknown types, header blocks from the reference encoder with every representation choice, fed under 9 read chunkings incl. one byte at a time with Pending in between: same Frame values under all chunkings and equal to the reference parser; (oversize) a frame announcing more than the advertised limit yields FRAME_SIZE_ERROR after the 9 header bytes, before any body byte is supplied; plus the wire rule in sim runs (every emitted payload <= the peer's acknowledged MAX_FRAME_SIZE). Non-trivial iff a write was partial, a frame had exactly the maximum size or a block used CONTINUATION (ser), always for parse/oversize; distinct by fingerprint of the emitted/parsed frame sequence and chunking.",
        "quick": [codec("ser", 12000), codec("parse", 8000), codec("oversize", 3000), sim("fidelity", 4000), sim("settings", 2000), codec("ser", 3200, profile="asan", label="codec-ser-asan"), codec("parse", 3200, profile="asan", label="codec-parse-asan")],
        "thorough": [codec("ser", 300000), codec("ser", 20000, extra=["--big-sizes"], label="codec-ser-2^24"), codec("parse", 200000), codec("oversize", 50000), sim("fidelity", 100000), sim("settings", 50000), codec("ser", 60000, profile="asan", label="codec-ser-asan"), codec("parse", 60000, profile="asan", label="codec-parse-asan"), codec("parse", 64, profile="miri", label="codec-parse-miri", timeout=6000)],
        "min_nontrivial": {"quick": 500, "thorough": 5000},
        "require_stats": {"quick": {"ser.partial_writes": 10000, "ser.blocks_with_continuation": 100, "parse.frames": 10000, "oversize.rejected_before_body": 1000}, "thorough": {}},
        "assumptions": COMMON_ASSUME + ["sending PRIORITY is unimplemented!() in the codec and unreachable from the endpoint API: excluded on the serialise side"],
    },
    "C14": {
        "rule": "sim engine with user pings and set_initial_window_size from either application while traffic flows: acknowledgement bookkeeping (never more ACKs than SETTINGS written by the peer; equal at quiescence; PING ACK payload sequence is a prefix of the PINGs written), settings applied at the ACK position (C02/C05/C12 oracles are parameterised by the ACK). Non-trivial iff a window setting changed with streams open or a user ping was exchanged; distinct by behaviour fingerprint.",
        "quick": [sim("settings", 12000), sim("general", 4000)],
        "thorough": [sim("settings", 300000), sim("general", 100000)],
        "min_nontrivial": {"quick": 300, "thorough": 3000},
        "assumptions": COMMON_ASSUME,
    },
    "C15": {
        "rule": "sim engine with server graceful_shutdown / abrupt_shutdown at PRNG-chosen instants: GOAWAY last-stream-id monotone and >= every stream already returned by accept(); no accept() above a sent GOAWAY; in-flight streams at or below it complete (C01 ledger); in cooperative scenarios with graceful_shutdown() (two thirds of the shutdown focus, often with user pings of either side in flight) neither endpoint may write an error GOAWAY, every stream the server had accepted completes at the client and the connection futures complete. raw engine, family shutdown: (E = server) graceful_shutdown() with streams in flight and often an unanswered user PING; the scripted client acknowledges user PING, shutdown PING and stray PING acks in PRNG order, opens streams between and after the two GOAWAYs: the final GOAWAY must follow the shutdown acknowledgement, cover every accepted stream, accepted streams complete, later streams never reach the application, then the endpoint closes the transport and returns Ok; (E = client) the scripted server sends GOAWAY(last, code in {0,2,11,13,0xdeadbeef}, debug data) with requests below and above last: those at or below complete, those above fail with exactly that code and remote origin, no new stream is started afterwards, the connection future reports code and debug data. Non-trivial iff a GOAWAY was sent while more than one stream had been opened; distinct by behaviour fingerprint.",
        "quick": [sim("shutdown", 16000), raw("shutdown", 3200)],
        "thorough": [sim("shutdown", 400000), raw("shutdown", 100000)],
        "min_nontrivial": {"quick": 300, "thorough": 3000},
        "require_stats": {"quick": {"c15.graceful_coop_scenarios": 2000, "c15.accepted_streams_judged": 3000, "shutdown.final_goaway_seen": 500, "shutdown.requests_above_last": 500, "shutdown.requests_below_last": 500, "shutdown.client_conn_err_compared": 300}, "thorough": {}},
        "assumptions": COMMON_ASSUME + ["an endpoint that has refused or reset streams may answer their late frames with a connection error (RFC 9113 5.1 lets it limit the period over which it ignores them; h2's period for refused streams is zero): such runs are excused from the 'no connection error during graceful shutdown' rule"],
    },
    "C16": {
        "rule": "sim engine with 2-10 streams competing for connection capacity under reserve_capacity churn (raise/lower), max_send_buffer_size in {1..500k}; snapshot conservation (conn.window == conn.available + sum stream.available), no poll_capacity -> Ok(0), waits resolved at quiescence. Non-trivial iff a capacity notification was delivered with more than one stream in the scenario; distinct by behaviour fingerprint.",
        "quick": [sim("capacity", 12000), sim("sendwindow", 4000)],
        "thorough": [sim("capacity", 300000), sim("sendwindow", 100000)],
        "min_nontrivial": {"quick": 500, "thorough": 5000},
        "require_stats": {"quick": {"capacity_notifications": 5000}, "thorough": {}},
        "assumptions": COMMON_ASSUME,
    },
    "C17": {
        "rule": "sim engine with send_reset / handle drops at every point of a stream's life (queued behind the concurrency limit, blocked on window, partly written, half-closed, closed): at most one non-reactive RST_STREAM per stream on the wire, nothing of the stream after it, other streams keep fidelity; wire/API join (mon/reset.rs): the first RST_STREAM of a stream carries the caller's code when send_reset was called (codes drawn from {0,1,2,5,7,8,11,13,0xff,0x12345678,0xdeadbeef}), otherwise CANCEL, or NO_ERROR only on a server that had submitted its complete response, or a refusal/reaction code; once an endpoint has read a peer RST_STREAM(code) on a stream nothing else had failed, every error its handles report is a reset with exactly that code and remote origin and no operation on the stream is left waiting at quiescence; streams above a peer GOAWAY's last-stream-id fail with the GOAWAY's code and remote origin. Non-trivial iff a reset/abort/cancel was part of the program; distinct by behaviour fingerprint.",
        "quick": [sim("resets", 16000), sim("shutdown", 6000), sim("lifecycle", 4000)],
        "thorough": [sim("resets", 400000), sim("shutdown", 150000), sim("lifecycle", 100000)],
        "min_nontrivial": {"quick": 500, "thorough": 5000},
        "require_stats": {"quick": {"send_reset_calls": 1000, "c17.user_reset_codes_compared": 5000, "c17.library_reset_codes_judged": 2000, "c17.errors_after_peer_reset_judged": 5000}, "thorough": {}},
        "assumptions": COMMON_ASSUME + ["debug data of GOAWAY and I/O error kinds are not compared (the API log keeps code and origin)", "a further RST_STREAM(STREAM_CLOSED) sent in reaction to peer frames arriving for an already reset stream is RFC-permitted and not counted as a second reset"],
    },
    "C18": {
        "rule": "raw engine, flood family: a scripted peer drives one h2 endpoint (server: 16 flood kinds - rapid open+reset before/after accept, open beyond the concurrency limit, CONTINUATION trains, oversized header lists, tiny/empty DATA, PING/SETTINGS/WINDOW_UPDATE/PRIORITY/unknown-frame storms, frames on closed and reset streams; client: PUSH_PROMISE trains (bare, reset, completed), 1xx trains, tiny/empty DATA, the same storms) with applications that accept fast, hold, ignore or accept only a few streams, optionally with the endpoint's writes blocked or its send window withheld, at flood length n and again at 8n; hook-H2 snapshots around every connection poll are compared with reference bounds computed from the configuration only (records the application holds no handle to <= max_concurrent_streams + max_concurrent_reset_streams + max_pending_accept_reset_streams + 2; buffered receive events <= 3 per record + 3 per held stream + min(window/256 + data_frame_budget + 100, DATA frames the peer sent); queued send frames <= max_local_error_reset_streams + 2 per record + 4 per held stream), and while writes are blocked the bytes consumed from PING/SETTINGS floods must stay below 64 kB + 2 frames. Non-trivial iff the prelude reached the flood state in both runs; distinct by wire/schedule fingerprint of both runs.",
        "quick": [raw("flood", 1600)],
        "thorough": [raw("flood", 60000)],
        "min_nontrivial": {"quick": 500, "thorough": 5000},
        "require_stats": {"quick": {"flood.snapshots_judged": 500000, "flood.items_sent": 100000, "flood.with_blocked_writes": 50, "flood.blocked_reply_checks": 20, "flood.outcome.goaway11": 50, "flood.refused_stream_rsts": 1000}, "thorough": {}},
        "evidence_stats": ["flood", "max.flood", "snapshots", "conn_polls", "bytes_written"],
        "assumptions": COMMON_ASSUME + ["bounds are judged on stream records, buffered receive events and queued send frames as copied by hook H2; heap bytes outside those containers (partial header block, HPACK tables, codec buffers) are bounded by construction in h2 and are not measured", "what the local application itself holds (stream records with a live handle) is excluded from the record bound, as the property states", "floods are finite (n <= 260, 8n <= 2080 items): growth slower than one record per 8 flood items below the bound would not be seen"],
    },
    "C19": {
        "rule": "sim engine: a first wave of streams ending by every path with handle drops at random instants, quiescence with the connection alive (hook-H2 snapshot must show nothing retained outside the reset memory, counters and windows idle), a second wave on the recycled slots, then idle close (GOAWAY(NO_ERROR), transport shutdown, Ok(())). Non-trivial iff a stream ended by a non-clean path or the forgetting check ran; distinct by behaviour fingerprint.",
        "quick": [sim("forget", 14000), sim("general", 2000), sim("forget", 800, profile="asan", label="sim-forget-asan")],
        "thorough": [sim("forget", 350000), sim("general", 50000), sim("forget", 60000, profile="asan", label="sim-forget-asan")],
        "min_nontrivial": {"quick": 500, "thorough": 5000},
        "require_stats": {"quick": {"forget_checks": 2000, "idle_close_checked": 2000, "second_wave_completed": 500}, "thorough": {}},
        "assumptions": COMMON_ASSUME,
    },
    "C08": {
        "rule": "raw engine: one h2 endpoint (either role, application programs running within documented preconditions) fed hostile input by the scripted peer at PRNG-drawn fragmentation: (fuzz) grammar-generated frames of every type in arbitrary order/state with odd header lists, mutated legal transcripts (bit flips, length/type/id edits, truncation, duplication, splicing), extremes (600-entry SETTINGS, WINDOW_UPDATE storms, 400-field blocks split into 100-byte CONTINUATIONs, 255-byte padding, 16 MiB length announcements, PING bursts), random bytes; (catalogue) 63 RFC violation / legal-but-unusual items x 6 stream state classes after a legal prefix; (headers) malformed/well-formed messages. Oracles: catch_unwind around every poll and drop (any panic out of h2), self-wake busy-loop detector, connection polls per input byte bounded, quiescence + every operation resolved + connection future completed after EOF. Every execution is non-trivial (the input differs from anything a conforming peer sends or is a violation by construction); distinct by behaviour fingerprint.",
        "quick": [raw("fuzz", 12000), raw("catalogue", 3000), raw("headers", 3000), sim("general", 2000, coop="no"), raw("fuzz", 6400, profile="asan", label="raw-fuzz-asan")],
        "thorough": [raw("fuzz", 400000), raw("catalogue", 80000), raw("headers", 80000), sim("general", 50000, coop="no"), raw("fuzz", 60000, profile="release", label="raw-fuzz-release"), raw("fuzz", 120000, profile="asan", label="raw-fuzz-asan"), raw("fuzz", 32, profile="miri", label="raw-fuzz-miri", timeout=6000), codec("parse", 64, profile="miri", label="codec-parse-miri", timeout=6000)],
        "min_nontrivial": {"quick": 1000, "thorough": 10000},
        "require_stats": {"quick": {"fuzz.class.grammar": 1000, "fuzz.class.mutation": 1000, "fuzz.class.extremes": 500, "fuzz.class.random": 500, "catalogue.applied": 500}, "thorough": {}},
        "assumptions": COMMON_ASSUME + ["the test-only drop assertions of h2's `unstable` feature (Store::drop slab.is_empty, Counts::drop !has_streams) are triaged as notes, not as panics", "debug profile (debug_assert and overflow checks on); the thorough tier repeats a slice in release"],
    },
    "C09": {
        "rule": "raw engine, family catalogue: E = h2 server with a witness stream in flight; a target stream is driven into a state class (idle, open, half-closed remote, closed clean, reset by E, reset by peer; the class is re-verified post hoc from E's API log and wire output, unverified cases are discarded), then one of 63 catalogue items is injected, then a probe request and the witness must still be served. Reference reaction table: MUST-connection-error => GOAWAY with non-zero code; stream error => RST_STREAM there or stronger, other streams and later requests unaffected; legal item => no error GOAWAY, no RST_STREAM on streams the item did not end, service continues; nothing of a violating frame reaches the application. Family headers supplies the converse for HTTP messages (well-formed => delivered). Non-trivial iff the item was applied in its verified state class; distinct by behaviour fingerprint; the (item x state) cells hit are listed in the evidence.",
        "quick": [raw("catalogue", 14000), raw("headers", 4000)],
        "thorough": [raw("catalogue", 400000), raw("headers", 100000)],
        "min_nontrivial": {"quick": 1000, "thorough": 10000},
        "require_stats": {"quick": {"catalogue.applied": 3000, "reaction.conn_error": 1000, "reaction.stream_error": 100, "reaction.tolerated": 500}, "thorough": {}},
        "assumptions": COMMON_ASSUME + ["the reaction table is hand-written from RFC 9113 (trusted base); where the RFC leaves a choice every permitted reaction is accepted", "tolerance of frames arriving after E reset a stream is demanded only within E's configured reset memory (reset_stream_duration / max_concurrent_reset_streams > 0)", "E = h2 client is covered for the PUSH_PROMISE-after-reset race by the sim engine and by the headers family, not by the catalogue"],
    },
    "C13": {
        "rule": "raw engine, family headers: header lists generated from a grammar (each pseudo-header present/absent/duplicated/empty/unknown/misplaced/wrong direction, upper-case names, the five connection-specific fields, TE variants, content-length absent/equal/short/long/conflicting/non-numeric) in five message kinds (request to an h2 server; response, interim response, trailers, pushed request to an h2 client) followed by DATA matching or contradicting the declared length. Reference predicate = the MUST rules the property lists. malformed => never returned Ok by accept / ResponseFuture / poll_informational / poll_trailers / PushPromises and the stream fails; length mismatch => body ends in Err, never a clean end. Send side: sim engine wire rule (every message E emits is well-formed as seen by the independent parser). Non-trivial iff the reference predicate says malformed; distinct by behaviour fingerprint.",
        "quick": [raw("headers", 16000)],
        "thorough": [raw("headers", 400000)],
        "min_nontrivial": {"quick": 1000, "thorough": 10000},
        "require_stats": {"quick": {"headers.judged": 10000, "headers.kind.Request.malformed": 1000, "headers.kind.Response.malformed": 300, "headers.kind.Trailers.malformed": 100, "headers.kind.Interim.malformed": 100, "headers.kind.PushedRequest.malformed": 100}, "thorough": {}},
        "assumptions": COMMON_ASSUME + ["only the rules the property names are judged (RFC 9113 8.1.1, 8.2, 8.2.1, 8.2.2, 8.3, 8.3.1, 8.5); content-length is judged on messages that may carry content"],
    },
    "C10": {
        "rule": "codec engine, family ser-hpack: histories of 1-60 header blocks (requests with every method kind, responses, trailers, pushes; field pool with static-table names and values, colliding custom names, repeated names with few distinct values, values from empty to 6 kB) sent through the real send path (h2::frame::Headers / PushPromise buffered into h2::Codec, so CONTINUATION split points are h2's own), with peer SETTINGS_HEADER_TABLE_SIZE events between blocks drawn from {0,1,31,32,33,64,100,150,200,4096,4097,65536,2^32-1} (applied, like h2 does, only when the codec is ready) and max_frame_size changes. The emitted bytes are reassembled by the independent frame parser and decoded by (i) the reference decoder in strict mode (size update <= allowed, a reduction signalled at the start of the next block with the minimum first, mirror table <= allowed), (ii) nghttp2's inflater, (iii) h2's own decoder through a second Codec: all must return the submitted fields. Family huffman: h2's Huffman encoder output equals the RFC code. Plus the sim wire rule (every block either endpoint emits decodes; size updates <= the peer's acknowledged table size). Non-trivial iff an eviction or a table-size change occurred in the history; distinct by fingerprint of the emitted frame sequence.",
        "quick": [codec("ser-hpack", 12000), codec("huffman", 2000), sim("settings", 3000), codec("ser-hpack", 3200, profile="asan", label="codec-ser-hpack-asan")],
        "thorough": [codec("ser-hpack", 400000), codec("huffman", 50000), sim("settings", 100000), sim("fidelity", 100000), codec("ser-hpack", 60000, profile="asan", label="codec-ser-hpack-asan"), codec("ser-hpack", 64, profile="miri", label="codec-ser-hpack-miri", timeout=6000)],
        "min_nontrivial": {"quick": 1000, "thorough": 10000},
        "require_stats": {"quick": {"hpack.evictions": 10000, "hpack.table_size_changes": 3000, "hpack.size_updates_emitted": 1000, "nghttp2.blocks_inflated": 50000, "ser.blocks_with_continuation": 100}, "thorough": {}},
        "assumptions": COMMON_ASSUME + ["cross-name field order is compared as HeaderMap iterates it but only per-name value sequences are a verdict", "pseudo-header fields cannot be built for a direct Encoder call from outside the crate (BytesStr constructors are crate-private): they are covered through the Codec path only"],
    },
    "C11": {
        "rule": "codec engine, family hpackdec: h2::verif::Decoder (hook H1) driven like framed_read.rs does, against the reference decoder written from RFC 7541 (Appendix A table, Appendix B text walked bit by bit). Histories of 1-25 blocks built by the reference encoder with every representation choice per field (indexed / literal with, without, never indexed; indexed or literal name; Huffman or raw; padded integers; legal size updates at block start), then one defect: index 0, index past the table, size update after a field, size update above the limit, EOS / over-long Huffman padding, integer overflow, truncation, bit flip. Oracles: soundness (h2 Ok => reference Ok with the same list), completeness on the safe subset, table size == reference and <= limit after every block, split invariance (same block whole vs every split offset up to 64 bytes / 16 sampled, 2- and 3-way, identical history). Families huffman / huffman-exhaustive: every byte string of length <= 2 (quick) / <= 3 (thorough, 16.8 M) plus sampled longer ones decoded by h2 and by the reference. Non-trivial iff the block exercises a dynamic-table reference, a Huffman string, a multi-octet integer, a size update, or is invalid; distinct by fingerprint of the per-block verdict sequence.",
        "quick": [codec("hpackdec", 60000), codec("huffman", 4000), codec("huffman-exhaustive", 65808, extra=["--max-len", "2"], label="codec-huffman-exhaustive<=2"), codec("hpackdec", 6400, profile="asan", label="codec-hpackdec-asan"), codec("huffman", 3200, profile="asan", label="codec-huffman-asan")],
        "thorough": [codec("hpackdec", 400000), codec("huffman", 50000), codec("huffman-exhaustive", 16843024, extra=["--max-len", "3"], label="codec-huffman-exhaustive<=3"), codec("hpackdec", 100000, profile="asan", label="codec-hpackdec-asan"), codec("huffman", 50000, profile="asan", label="codec-huffman-asan"), codec("hpackdec", 128, profile="miri", label="codec-hpackdec-miri", timeout=6000), codec("huffman", 320, profile="miri", label="codec-huffman-miri", timeout=6000)],
        "min_nontrivial": {"quick": 1000, "thorough": 10000},
        "require_stats": {"quick": {"hpackdec.blocks_agreed_ok": 100000, "hpackdec.blocks_agreed_err": 5000, "hpackdec.splits_tried": 500000, "huffman.exhaustive_strings": 65793}, "thorough": {"huffman.exhaustive_strings": 16843009}},
        "exhaustive_note": "Huffman decoding: all byte strings of length <= 2 (quick) / <= 3 (thorough) are enumerated completely; everything else is sampled",
        "assumptions": COMMON_ASSUME + ["completeness is judged only inside h2's documented implementation limits (minimal integers, lower-case token names, HeaderValue-admissible values, the six known pseudo names)"],
    },
    "C07": {
        "level": "fault_enumeration",
        "rule": "sim engine, family faults: a small cooperative base scenario (<= 3 streams, bodies <= 3 kB, 1xx, pushes, trailers, pings) is run once fault-free to learn its length in world steps; it is then re-run with the connection ended at a crash point by each ending kind - both directions cut with clean EOF (mid-frame or not), cut with ConnectionReset, client Connection object dropped, server Connection object dropped, abrupt_shutdown(INTERNAL_ERROR), abrupt_shutdown(NO_ERROR), graceful_shutdown - then run to quiescence, then probed (a fresh request through a kept SendRequest clone, a ping on each live connection, every actor continuing its program on the dead connection), then the last handle is dropped. Quick: 8 sampled (kind, step) pairs per base scenario; thorough: additionally every step x every kind for base scenarios of <= 600 steps (exhaustive for that sub-space, counted as exhaustive_sweep_points). Engine raw/fuzz adds fatal protocol errors and write errors, sim non-cooperative scenarios add write-zero / write-error faults at byte offsets. Oracle at quiescence: no API operation outstanding (response futures, informational, push promises, body and trailer reads, capacity and readiness waits, accept, ping, both connection futures), every probe returned, a message whose frames through END_STREAM had all been read before the ending still delivers its full content, no panic. Non-trivial: every execution (an ending struck a running scenario); distinct by fingerprint x crash point.",
        "quick": [sim("general", 3200, extra=["--family", "faults", "--points", "8"], label="sim-faults"), sim("resets", 400, extra=["--family", "faults", "--points", "8"], label="sim-faults-resets"), sim("sendwindow", 2400, extra=["--family", "faults", "--points", "8"], label="sim-faults-small-windows"), sim("general", 3000, coop="no", label="sim-noncoop-io-faults"), raw("fuzz", 3000)],
        "thorough": [sim("general", 40000, extra=["--family", "faults", "--points", "12"], label="sim-faults"), sim("general", 600, extra=["--family", "faults", "--exhaustive"], label="sim-faults-exhaustive", timeout=3000), sim("sendwindow", 20000, extra=["--family", "faults", "--points", "12"], label="sim-faults-small-windows"), sim("general", 80000, coop="no", label="sim-noncoop-io-faults"), raw("fuzz", 80000)],
        "min_nontrivial": {"quick": 1000, "thorough": 10000},
        "require_stats": {"quick": {"ending.CutEof": 500, "ending.CutReset": 500, "ending.DropClientConn": 500, "ending.DropServerConn": 500, "ending.AbruptShutdown": 500, "ending.GracefulShutdown": 500, "probe_requests": 1000, "complete_before_ending": 200, "closed_clean_before_ending": 200}, "thorough": {"exhaustive_sweep_points": 10000}},
        "exhaustive_note": "thorough tier only: for base scenarios of <= 600 world steps every step x every ending kind is enumerated (exhaustive_sweep_points); everything else is sampled",
        "assumptions": COMMON_ASSUME + ["abrupt_shutdown is exempt from 'complete messages are still delivered' (its documented contract is that outstanding streams are not handled)", "crash points are scheduler steps of the deterministic world, which include every byte-delivery and every task poll of that execution"],
    },
    "C20": {
        "rule": "threaded engine: real OS threads on the real library - one thread polls the client connection, one the server connection, every stream's client side (poll_ready, send_request, reserve_capacity/poll_capacity, send_data, send_reset, response and body reads, release_capacity, handle drops) and every accepted stream's server side run on their own threads, further threads hammer clone/poll_ready/drop on the request handle and send_ping/poll_pong on the ping handle; windows from 1 byte, frame sizes, send buffers, concurrency limits, transport chunking (1 byte .. whole buffer, transient Pending) and random yields/spins/sleeps are PRNG-drawn per execution. The transport records every write and read with a sequence number from one relaxed atomic (the monitor adds no happens-before edge); after joining, the wire history is rebuilt and judged by the same wire oracles as in the simulator (flow-control accountant, life-cycle automaton, concurrency, frame size, acknowledgement bookkeeping, reset counting), hook-H2 snapshot invariants are evaluated by both connection threads after every poll, bodies are position-coded and checked end to end, every stream that nobody reset or dropped must complete cleanly when both connections ended Ok, a second send_ping before the pong must be refused, any panic / PoisonError in any thread is a violation, and a watchdog (no progress counter change for 30 s) dumps all stacks with gdb: two or more h2 frames waiting on a lock = deadlock violation, otherwise inconclusive. Layers: plain debug build; ThreadSanitizer build (-Zsanitizer=thread -Zbuild-std; data races and lock-order inversions, halt_on_error, report = violation); Miri (-Zmiri-many-seeds over a small 1-2 stream variant: data-race detector, weak-memory emulation, UB). Non-trivial iff every stream thread returned and the run was not aborted; distinct by wire fingerprint + event count.",
        "quick": [thread(480, extra=["--watchdog", "30"]), thread(320, profile="tsan", extra=["--watchdog", "60"]), thread(1, profile="miri", shards=1, extra=["--small", "--watchdog", "3000"], miriflags="-Zmiri-many-seeds=0..8", timeout=3000)],
        "thorough": [thread(40000, extra=["--watchdog", "30"]), thread(16000, profile="tsan", extra=["--watchdog", "60"]), thread(6, profile="miri", shards=2, extra=["--small", "--watchdog", "3000"], miriflags="-Zmiri-many-seeds=0..32", timeout=20000)],
        "min_nontrivial": {"quick": 300, "thorough": 5000},
        "require_stats": {"quick": {"threads.streams_completed_clean": 500, "threads.user_pings_completed": 200, "threads.chaos_ops": 5000, "snapshots": 100000, "client.data_frames_judged": 20000}, "thorough": {}},
        "evidence_stats": ["threads", "snapshots", "conn_polls", "bytes_written", "data_frames_judged", "sanitizer", "frames."],
        "technique": "runtime monitoring under real concurrency: multi-threaded stress of the real library with wire/state/end-to-end oracles, ThreadSanitizer, Miri (data-race detector and UB interpreter), deadlock watchdog",
        "assumptions": COMMON_ASSUME + ["'every interleaving' is restated as: every execution produced by the free-running multi-threaded workloads (OS scheduler, random yields/spins/sleeps, Miri's seeded scheduler) satisfies the interleaving-independent oracles, and no race / lock-order / UB report is raised; interleavings the schedulers never produced are not covered", "'equivalent to some sequential order' is judged through its observable consequences (wire and API oracles that do not depend on the interleaving, exactly-once for user pings), not by a general linearizability search", "ThreadSanitizer sees only synchronisation it intercepts (std Mutex/Condvar/atomics are instrumented via -Zbuild-std); Miri runs a 1-2 stream variant because of its slowdown"],
    },
}
